package seq

import (
	"bytes"
	"encoding/json"
	"fmt"

	"berty.tech/go-ipfs-log/entry"
	"github.com/ipfs/go-cid"

	"verif/engine/run"
	"verif/engine/store"
	"verif/engine/world"
)

// C07 — signatures are tamper-evident over every signed field.
//
// Every entry of the grammar is really signed; the original must verify, and every single
// modification of a signed part (payload bytes, log id, next/refs membership and order, a link
// moved between next and refs, version, each clock-id byte, clock time, key of another
// writer, signature of another entry, every single-bit flip of the signature) must make
// Verify return an error.

type c07Case struct {
	Spec entrySpec `json:"spec"`
	Mod  string    `json:"mod"`  // kind of modification
	Arg  []int     `json:"arg"`  // parameters of the modification
	Desc string    `json:"desc"` // human description
}

type mod struct {
	kind string
	arg  []int
	desc string
	ap   func(e *entry.Entry)
}

func cloneEntry(e *entry.Entry) *entry.Entry {
	c := *e
	c.Payload = append([]byte{}, e.Payload...)
	c.Next = append([]cid.Cid{}, e.Next...)
	c.Refs = append([]cid.Cid{}, e.Refs...)
	c.Key = append([]byte{}, e.Key...)
	c.Sig = append([]byte{}, e.Sig...)
	c.Clock = entry.NewLamportClock(append([]byte{}, e.Clock.ID...), e.Clock.Time)
	return &c
}

func c07Mods(e *entry.Entry, other *entry.Entry, full bool) []mod {
	var ms []mod
	add := func(kind string, arg []int, desc string, ap func(x *entry.Entry)) {
		ms = append(ms, mod{kind, arg, desc, ap})
	}
	// payload
	if len(e.Payload) <= 3 {
		for i := range e.Payload {
			for b := 0; b < 256; b++ {
				if byte(b) == e.Payload[i] {
					continue
				}
				i, b := i, b
				add("payload-byte", []int{i, b}, fmt.Sprintf("payload byte %d -> %#02x", i, b), func(x *entry.Entry) { x.Payload[i] = byte(b) })
			}
		}
	} else {
		for _, i := range []int{0, len(e.Payload) / 2, len(e.Payload) - 1} {
			for _, b := range []int{0x00, 0x41, 0x80, 0xff} {
				if byte(b) == e.Payload[i] {
					continue
				}
				i, b := i, b
				add("payload-byte", []int{i, b}, fmt.Sprintf("payload byte %d -> %#02x", i, b), func(x *entry.Entry) { x.Payload[i] = byte(b) })
			}
		}
	}
	for _, b := range []int{0x00, 0x61, 0xff} {
		b := b
		add("payload-insert-front", []int{b}, fmt.Sprintf("insert %#02x before the payload", b), func(x *entry.Entry) { x.Payload = append([]byte{byte(b)}, x.Payload...) })
		add("payload-insert-back", []int{b}, fmt.Sprintf("append %#02x to the payload", b), func(x *entry.Entry) { x.Payload = append(x.Payload, byte(b)) })
	}
	if len(e.Payload) > 0 {
		add("payload-delete-front", nil, "delete the first payload byte", func(x *entry.Entry) { x.Payload = x.Payload[1:] })
		add("payload-delete-back", nil, "delete the last payload byte", func(x *entry.Entry) { x.Payload = x.Payload[:len(x.Payload)-1] })
	}
	// log id
	add("logid", []int{0}, "log id -> other", func(x *entry.Entry) { x.LogID = x.LogID + "x" })
	add("logid", []int{1}, "log id -> 'Q'", func(x *entry.Entry) { x.LogID = "Q" })
	add("logid", []int{2}, "log id -> first char changed", func(x *entry.Entry) { x.LogID = "~" + x.LogID[1:] })
	// links
	extra := linkPool[2]
	for li, name := range []string{"next", "refs"} {
		get := func(x *entry.Entry) *[]cid.Cid {
			if li == 0 {
				return &x.Next
			}
			return &x.Refs
		}
		n := len(*get(e))
		for i := 0; i < n; i++ {
			i := i
			add(name+"-drop", []int{i}, fmt.Sprintf("drop %s[%d]", name, i), func(x *entry.Entry) {
				l := get(x)
				*l = append(append([]cid.Cid{}, (*l)[:i]...), (*l)[i+1:]...)
			})
			add(name+"-replace", []int{i}, fmt.Sprintf("replace %s[%d]", name, i), func(x *entry.Entry) { (*get(x))[i] = extra })
		}
		// repeat a link the list already holds: right after itself, and at the other end of the list
		for i := 0; i < n; i++ {
			i := i
			add(name+"-repeat", []int{i, 0}, fmt.Sprintf("repeat %s[%d] right after itself", name, i), func(x *entry.Entry) {
				l := get(x)
				*l = append(append(append([]cid.Cid{}, (*l)[:i+1]...), (*l)[i]), (*l)[i+1:]...)
			})
			add(name+"-repeat", []int{i, 1}, fmt.Sprintf("repeat %s[%d] at the end", name, i), func(x *entry.Entry) { l := get(x); *l = append(*l, (*l)[i]) })
			add(name+"-repeat", []int{i, 2}, fmt.Sprintf("repeat %s[%d] at the front", name, i), func(x *entry.Entry) { l := get(x); *l = append([]cid.Cid{(*l)[i]}, *l...) })
		}
		add(name+"-add-front", nil, "add a link in front of "+name, func(x *entry.Entry) { l := get(x); *l = append([]cid.Cid{extra}, *l...) })
		add(name+"-add-back", nil, "add a link at the end of "+name, func(x *entry.Entry) { l := get(x); *l = append(*l, extra) })
		for i := 0; i+1 < n; i++ {
			i := i
			if (*get(e))[i].Equals((*get(e))[i+1]) {
				continue
			}
			add(name+"-swap", []int{i}, fmt.Sprintf("swap %s[%d] and %s[%d]", name, i, name, i+1), func(x *entry.Entry) { l := *get(x); l[i], l[i+1] = l[i+1], l[i] })
		}
	}
	if len(e.Next) > 0 {
		add("move-next-to-refs", nil, "move next[0] to refs", func(x *entry.Entry) { x.Refs = append(x.Refs, x.Next[0]); x.Next = x.Next[1:] })
	}
	if len(e.Refs) > 0 {
		add("move-refs-to-next", nil, "move refs[0] to next", func(x *entry.Entry) { x.Next = append(x.Next, x.Refs[0]); x.Refs = x.Refs[1:] })
	}
	// version
	for _, v := range []int{0, 1, 3} {
		v := v
		add("version", []int{v}, fmt.Sprintf("v -> %d", v), func(x *entry.Entry) { x.V = uint64(v) })
	}
	// clock
	for i := range e.Clock.ID {
		i := i
		add("clock-id-byte", []int{i}, fmt.Sprintf("flip bit 0 of clock id byte %d", i), func(x *entry.Entry) { x.Clock.ID[i] ^= 1 })
	}
	add("clock-id-truncate", nil, "drop the last clock id byte", func(x *entry.Entry) { x.Clock.ID = x.Clock.ID[:len(x.Clock.ID)-1] })
	add("clock-time", []int{1}, "time+1", func(x *entry.Entry) { x.Clock.Time++ })
	add("clock-time", []int{-1}, "time-1", func(x *entry.Entry) { x.Clock.Time-- })
	// key / signature substitution
	add("key-of-other-writer", nil, "key -> another writer's key", func(x *entry.Entry) { x.Key = world.IDs[(2)].PublicKey })
	// malformed substitutes: a key that does not even parse must not make verification fall back on anything else
	for i := range e.Key {
		i := i
		add("key-byte", []int{i}, fmt.Sprintf("flip bit 0 of key byte %d", i), func(x *entry.Entry) { x.Key[i] ^= 1 })
	}
	add("key-truncate", []int{1}, "drop the last key byte", func(x *entry.Entry) { x.Key = x.Key[:len(x.Key)-1] })
	add("key-truncate", []int{32}, "keep only the first 33 key bytes", func(x *entry.Entry) { x.Key = x.Key[:33] })
	add("key-prefix", []int{0x02}, "key prefix byte -> 0x02", func(x *entry.Entry) { x.Key[0] = 0x02 })
	add("key-garbage", nil, "key -> 65 bytes of 0xAB", func(x *entry.Entry) { x.Key = bytes.Repeat([]byte{0xab}, 65) })

	add("sig-of-other-entry", nil, "signature -> valid signature of a different entry by the same key", func(x *entry.Entry) { x.Sig = other.Sig })
	nbits := len(e.Sig) * 8
	for b := 0; b < nbits; b++ {
		if !full && b%8 != 0 && b%8 != 7 && b > 48 && b < nbits-16 {
			continue // quick tier: bits 0 and 7 of every byte, all bits of the DER header and of the last two bytes
		}
		b := b
		add("sig-bit", []int{b}, fmt.Sprintf("flip signature bit %d", b), func(x *entry.Entry) { x.Sig[b/8] ^= 1 << uint(b%8) })
	}
	return ms
}

func canonicalPayload(p []byte) string {
	b, _ := json.Marshal(string(p))
	return string(b)
}

func c07One(p *run.Part, spec entrySpec, onlyMod string, onlyArg []int, full bool) {
	st := store.New()
	io := defaultIO()
	ei, err := spec.build(st, io)
	if err != nil {
		p.Violate("tamper", "C07:create-failed", fmt.Sprintf("creating %s failed: %v", spec, err), c07Case{Spec: spec})
		return
	}
	e := ei.(*entry.Entry)
	o2, err := entrySpec{Payload: []byte("another entry"), Time: 9, Writer: spec.Writer, LogID: "X", Next: []int{}, Refs: []int{}}.build(st, io)
	if err != nil {
		panic(err)
	}
	other := o2.(*entry.Entry)
	prov := world.IDs[spec.Writer].Provider
	p.Add(1, 0, 0, 1)
	if err := e.Verify(prov, io); err != nil {
		p.Violate("tamper", "C07:original-rejected", fmt.Sprintf("the untouched entry %s does not verify: %v", spec, err), c07Case{Spec: spec, Mod: "none"})
		return
	}
	for _, m := range c07Mods(e, other, full) {
		if onlyMod != "" && (m.kind != onlyMod || fmt.Sprint(m.arg) != fmt.Sprint(onlyArg)) {
			continue
		}
		x := cloneEntry(e)
		// the object was verified before it is changed in place (an entry a log has already admitted is then edited
		// through its exported fields, its clock, its slices): nothing about an earlier verdict may be remembered
		if perr := x.Verify(prov, io); perr != nil {
			p.Violate("tamper", "C07:original-rejected", fmt.Sprintf("a clone of the untouched entry %s does not verify: %v", spec, perr), c07Case{Spec: spec, Mod: "none"})
			return
		}
		m.ap(x)
		var verr error
		pv, stack := run.Safe(func() { verr = x.Verify(prov, io) })
		p.Add(0, 1, 0, 1)
		cc := c07Case{Spec: spec, Mod: m.kind, Arg: m.arg, Desc: m.desc}
		if pv != nil {
			p.Violate("tamper", "C07:verify-panicked:"+m.kind, fmt.Sprintf("Verify panicked on %s with %s: %v at %s", spec, m.desc, pv, stack), cc)
			continue
		}
		if verr == nil {
			key := "C07:accepted:" + m.kind
			if (m.kind == "payload-byte" || m.kind == "payload-insert-front" || m.kind == "payload-insert-back" || m.kind == "payload-delete-front" || m.kind == "payload-delete-back") &&
				!bytes.Equal(x.Payload, e.Payload) && canonicalPayload(x.Payload) == canonicalPayload(e.Payload) {
				key = "C07:payload-bytes-collapse-in-canonical-json"
			}
			p.Violate("tamper", key, fmt.Sprintf("entry %s still verifies after: %s", spec, m.desc), cc)
			continue
		}
		p.Add(0, 0, 1, 0)
		p.Nontriv(m.kind + fmt.Sprint(m.arg))
	}
}

func init() {
	register(&Check{ID: "C07", Run: func(p *run.Part, tier string) {
		p.Rule = "entries from the shared grammar (payload alphabet incl. every single byte, link lists with duplicates/permutations/CIDv0, clock grid, 2 writers, 4 log ids), each really signed; every listed single modification is applied and verified; non-trivial = distinct (modification kind, parameters)"
		p.Assume("ECDSA/secp256k1 and SHA-256 are sound (cryptographic strength is outside bounded enumeration); quick tier flips bits 0 and 7 of every signature byte plus the whole DER header and tail, thorough flips every bit")
		g := grammar(tier)
		dl := Budget(tier)
		expired := false
		parallelFor(len(g), func(i int) {
			if dl.Expired() {
				expired = true
				return
			}
			c07One(p, g[i], "", nil, tier == "thorough")
		})
		if expired {
			p.Inexhaustive("deadline")
		}
		p.SetExtra("grammar_entries", len(g))
		p.Sample(6, c07Case{Spec: g[2], Mod: "payload-byte", Arg: []int{0, 0x41}, Desc: "payload byte 0 -> 0x41"})
		p.Sample(6, c07Case{Spec: g[len(g)-1], Mod: "move-next-to-refs", Desc: "move next[0] to refs"})
		p.Sample(6, c07Case{Spec: g[len(g)/2], Mod: "sig-bit", Arg: []int{77}, Desc: "flip signature bit 77"})
	}, Replay: func(p *run.Part, check string, raw []byte) {
		var c c07Case
		if err := jsonUnmarshal(raw, &c); err != nil {
			panic(err)
		}
		grammarInit()
		c07One(p, c.Spec, c.Mod, c.Arg, true)
	}})
}
