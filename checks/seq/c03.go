package seq

import (
	"fmt"
	"strings"

	"verif/engine/run"
	"verif/engine/seqx"
)

// C03 — Values() is a complete, duplicate-free, causally ordered, sorted linearisation.
//
// State oracle on every replica after every transition: Values() has exactly the keys
// of GetEntries(), no repeats, every entry after all of its predecessors that are in the
// log; under a strict ordering it equals the model linearisation (sort by time, clock id
// [, hash]); ToSnapshot().Values is the same sequence; ToString has one line per entry.

func valuesOracle(p *run.Part, check string, w *seqx.World, c seqx.Case) {
	for i, l := range w.Logs {
		es := l.GetEntries().Slice()
		vals := l.Values().Slice()
		vh := hashesOf(vals)
		pos := map[string]int{}
		for k, h := range vh {
			if _, dup := pos[h]; dup {
				p.Violate(check, "C03:duplicate", fmt.Sprintf("after %s: replica %d Values() contains %s twice", seqx.PathString(c.Path), i, short(w, []string{h})), c)
			}
			pos[h] = k
		}
		if !eqStrings(sortedStrings(vh), sortedStrings(hashesOf(es))) {
			kind := "missing"
			if len(vh) > len(es) {
				kind = "extra"
			}
			p.Violate(check, "C03:incomplete:"+kind, fmt.Sprintf("after %s: replica %d Values()=%s but entries=%s", seqx.PathString(c.Path), i, short(w, vh), short(w, sortedStrings(hashesOf(es)))), c)
			continue
		}
		for _, e := range vals {
			for _, n := range e.GetNext() {
				if pn, ok := pos[n.String()]; ok && pn >= pos[e.GetHash().String()] {
					p.Violate(check, "C03:causal-order", fmt.Sprintf("after %s: replica %d Values()=%s places %s before its predecessor", seqx.PathString(c.Path), i, short(w, vh), string(e.GetPayload())), c)
				}
			}
		}
		if w.Strict(i) {
			lin := w.M.Lin(w.ML[i].Set, w.Cfg.HashTie)
			var want []string
			for _, u := range lin {
				want = append(want, w.Ent[u].GetHash().String())
			}
			if !eqStrings(vh, want) {
				p.Violate(check, "C03:not-sorted", fmt.Sprintf("after %s: replica %d Values()=%s, sorted by the configured ordering it is %s", seqx.PathString(c.Path), i, short(w, vh), short(w, want)), c)
			} else {
				p.Add(0, 0, 1, 0)
			}
		}
		sv := hashesOf(l.ToSnapshot().Values)
		if !eqStrings(sv, vh) {
			p.Violate(check, "C03:snapshot-values", fmt.Sprintf("after %s: replica %d ToSnapshot().Values=%s differs from Values()=%s", seqx.PathString(c.Path), i, short(w, sv), short(w, vh)), c)
		}
		str := l.ToString(nil)
		lines := 0
		if len(es) > 0 {
			lines = strings.Count(str, "\n") + 1 // an entry with an empty payload is an empty line
		}
		if lines != len(es) {
			p.Violate(check, "C03:tostring-lines", fmt.Sprintf("after %s: replica %d ToString has %d lines for %d entries", seqx.PathString(c.Path), i, lines, len(es)), c)
		}
	}
}

func c03Searches(p *run.Part, tier string) []*seqx.Search {
	depth, pdepth := 6, 2
	if tier == "thorough" {
		depth, pdepth = 8, 3
	}
	dl := Budget(tier)
	mk := func(cfg *seqx.Config, prefix string, d int) *seqx.Search {
		return &seqx.Search{Part: p, Check: "bfs", Cfg: cfg, Alphabet: Alphabet(3, false), Depth: d, Prefix: Prefixes[prefix], PrefixID: prefix,
			Deadline: dl, Nontrivial: forked,
			OnTransition: func(w *seqx.World, pre *seqx.Pre, op seqx.Op, st *seqx.Step, c seqx.Case) {
				if expectedDenial(w, pre, op, st) {
					// a merge or append the destination's access policy must refuse: the log must stay as it was,
					// and the property's oracle below applies to the unchanged log as to any other state
					st = &seqx.Step{UID: -1}
				}
				if stepFailure(p, "bfs", op, st, c) {
					return
				}
				valuesOracle(p, "bfs", w, c)
			}}
	}
	return []*seqx.Search{mk(CfgDef3, "", depth), mk(CfgHash3, "", depth), mk(CfgShared3, "", depth-1), mk(CfgSharedH, "", depth-1),
		mk(CfgDef3, "+tri4", pdepth), mk(CfgDef3, "+fork12", pdepth), mk(CfgClk3, "", depth-1), mkPolicy(mk, "denyB/default", depth), mkPolicy(mk, "denyP3/default", depth),
		mk(CfgDef3, "+ab-merged", depth-1), mk(CfgDef3, "+abc", depth-1), mk2(mk, depth+2), mkEmpty(mk, CfgDef3, depth-1), mkPartial(mk, depth), mkSetID(mk, depth-1)}
}

func init() {
	register(&Check{ID: "C03", Run: func(p *run.Part, tier string) {
		p.Rule = ruleForked
		p.Assume("replicas <= 3, writers <= 3, depth as in extra.searches; sortedness is compared with the model linearisation only when the ordering is strict on the entries present (the statement's scope)")
		runSearches(p, c03Searches(p, tier))
	}, Replay: seqReplay(c03Searches)})
}
