package seq

import (
	"bytes"
	"fmt"
	"sort"
	"sync"

	ipfslog "berty.tech/go-ipfs-log"
	"berty.tech/go-ipfs-log/entry"
	"berty.tech/go-ipfs-log/iface"
	"github.com/ipfs/go-cid"

	"verif/engine/run"
	"verif/engine/seqx"
	"verif/engine/world"
)

// C15 on logs with holes. A log loaded with an exclusion, with a length limit over skip references, or
// opened over a partial entry set holds entries whose predecessors it does not hold; it is a reachable
// log like any other and the statement's "the given entries inclusively" applies to it. Such a log is
// built directly (NewLog over a subset of a written log's entries): a chain of 8 and a fork of 10, both
// written with pointer count 4, minus every set of <= 2 entries; heads left to NewLog or pinned to the top.
// Every upper bound (default, every one and every ordered pair of inclusive bounds, every exclusive one),
// every lower bound inside the must-set, amounts {none, 0, 1, 3, size+1}.
//
// Oracle. must = the held entries reachable from the roots through next links over held entries;
// may = the same through next and skip references (what lies across a hole is in the causal past, but
// the statement does not say whether the walk has to cross holes). Without an amount the output, cut at
// the lower bound, contains must-cut and is contained in may-cut; always: no duplicates, newest first,
// only held entries, at most `amount`; with an amount and no lower bound it is the newest part (a prefix
// of some sequence between must and may); the channel is closed, nothing panics.

type c15GapCase struct {
	Shape   string `json:"shape"`
	Removed []int  `json:"removed"`
	PinHead bool   `json:"pin_head"`
	Upper   string `json:"upper"`
	U       []int  `json:"u,omitempty"`
	Lower   string `json:"lower"`
	G       int    `json:"g"`
	Amount  int    `json:"amount"`
}

var gapShapes = map[string][]seqx.Op{
	"chain8": chain(0, 8),
	"fork10": append(append(append(append(chain(0, 3), seqx.Op{K: "join", A: 1, B: 0}), chain(0, 3)...), chain(1, 3)...),
		seqx.Op{K: "join", A: 0, B: 1}, seqx.Op{K: "app", A: 0}),
}

// gapLog opens a log over the entries of the shape minus the removed positions (positions in Values() order).
type gapBuilt struct {
	l    *ipfslog.IPFSLog
	vals []iface.IPFSLogEntry
	held []bool
}

var gapCache sync.Map

func gapLog(shape string, removed []int, pin bool) (*ipfslog.IPFSLog, []iface.IPFSLogEntry, []bool) {
	key := fmt.Sprint(shape, removed, pin)
	if b, ok := gapCache.Load(key); ok {
		g := b.(*gapBuilt)
		return g.l, g.vals, g.held
	}
	l, vals, held := gapLogBuild(shape, removed, pin)
	gapCache.Store(key, &gapBuilt{l, vals, held})
	return l, vals, held
}

func gapLogBuild(shape string, removed []int, pin bool) (*ipfslog.IPFSLog, []iface.IPFSLogEntry, []bool) {
	w := seqx.Replay(CfgDef3, gapShapes[shape])
	vals := w.Logs[0].Values().Slice()
	held := make([]bool, len(vals))
	var keep []iface.IPFSLogEntry
	rm := map[int]bool{}
	for _, r := range removed {
		rm[r] = true
	}
	for i, e := range vals {
		if !rm[i] {
			held[i] = true
			keep = append(keep, e)
		}
	}
	opts := &ipfslog.LogOptions{ID: "X", Entries: entry.NewOrderedMapFromEntries(keep)}
	if pin {
		opts.Heads = []iface.IPFSLogEntry{vals[len(vals)-1]}
	}
	return world.NewLog(w.St, 0, opts), vals, held
}

func newer(a, b iface.IPFSLogEntry) bool {
	if a.GetClock().GetTime() != b.GetClock().GetTime() {
		return a.GetClock().GetTime() > b.GetClock().GetTime()
	}
	return bytes.Compare(a.GetClock().GetID(), b.GetClock().GetID()) > 0
}

func gapIterOne(p *run.Part, cc c15GapCase) {
	l, vals, held := gapLog(cc.Shape, cc.Removed, cc.PinHead)
	pos := map[string]int{}
	for i, e := range vals {
		pos[e.GetHash().String()] = i
	}
	names := func(hs []string) string {
		var r []string
		for _, h := range hs {
			r = append(r, string(vals[pos[h]].GetPayload()))
		}
		return fmt.Sprint(r)
	}
	opts := &ipfslog.IteratorOptions{}
	var roots []int
	switch cc.Upper {
	case "default":
		for _, h := range l.Heads().Slice() {
			roots = append(roots, pos[h.GetHash().String()])
		}
	case "lte":
		for _, u := range cc.U {
			opts.LTE = append(opts.LTE, vals[u].GetHash())
			roots = append(roots, u)
		}
	case "lt":
		opts.LT = []cid.Cid{vals[cc.U[0]].GetHash()}
		for _, n := range vals[cc.U[0]].GetNext() {
			i, ok := pos[n.String()]
			if !ok || !held[i] {
				return // an exclusive bound whose predecessor is not held: the statement does not say what the range is
			}
			roots = append(roots, i)
		}
	}
	closure := func(withRefs bool) map[int]bool {
		seen := map[int]bool{}
		st := append([]int{}, roots...)
		for len(st) > 0 {
			x := st[len(st)-1]
			st = st[:len(st)-1]
			if seen[x] || !held[x] {
				continue
			}
			seen[x] = true
			links := append([]cid.Cid{}, vals[x].GetNext()...)
			if withRefs {
				links = append(links, vals[x].GetRefs()...)
			}
			for _, n := range links {
				if i, ok := pos[n.String()]; ok {
					st = append(st, i)
				}
			}
		}
		return seen
	}
	must, may := closure(false), closure(true)
	if cc.Lower != "none" && !must[cc.G] {
		return
	}
	switch cc.Lower {
	case "gt":
		opts.GT = vals[cc.G].GetHash()
	case "gte":
		opts.GTE = vals[cc.G].GetHash()
	}
	if cc.Amount >= 0 {
		a := cc.Amount
		opts.Amount = &a
	}
	ch := make(chan iface.IPFSLogEntry, len(vals)+4)
	var err error
	pv, stack := run.Safe(func() { err = l.Iterator(opts, ch) })
	desc := fmt.Sprintf("%s without positions %v (heads pinned: %v): Iterator(upper=%s%v lower=%s(%d) amount=%d)", cc.Shape, cc.Removed, cc.PinHead, cc.Upper, cc.U, cc.Lower, cc.G, cc.Amount)
	if pv != nil {
		p.Violate("iter-gapped", "C15:gapped:panic:"+run.PanicSite(stack), fmt.Sprintf("%s panicked: %v at %s", desc, pv, stack), cc)
		return
	}
	p.Add(0, 1, 0, 1)
	if err != nil {
		p.Violate("iter-gapped", "C15:gapped:error:"+cc.Upper, fmt.Sprintf("%s returned error %v", desc, err), cc)
		return
	}
	var got []string
	var gotE []iface.IPFSLogEntry
	closed := false
drain:
	for {
		select {
		case e, ok := <-ch:
			if !ok {
				closed = true
				break drain
			}
			got = append(got, e.GetHash().String())
			gotE = append(gotE, e)
		default:
			break drain
		}
	}
	if !closed {
		p.Violate("iter-gapped", "C15:gapped:channel-not-closed", desc+" returned nil but left the output channel open", cc)
	}
	if len(uniq(got)) != len(got) {
		p.Violate("iter-gapped", "C15:gapped:duplicates", fmt.Sprintf("%s emitted duplicates %s", desc, names(got)), cc)
		return
	}
	for i := 1; i < len(gotE); i++ {
		if !newer(gotE[i-1], gotE[i]) {
			p.Violate("iter-gapped", "C15:gapped:not-newest-first", fmt.Sprintf("%s emitted %s, which is not newest first", desc, names(got)), cc)
			return
		}
	}
	cut := func(set map[int]bool) map[string]bool {
		r := map[string]bool{}
		for i := range set {
			if cc.Lower != "none" {
				if i == cc.G {
					if cc.Lower == "gt" {
						continue
					}
				} else if !newer(vals[i], vals[cc.G]) {
					continue
				}
			}
			r[vals[i].GetHash().String()] = true
		}
		return r
	}
	mustC, mayC := cut(must), cut(may)
	gotSet := map[string]bool{}
	for _, h := range got {
		gotSet[h] = true
		if !mayC[h] {
			p.Violate("iter-gapped", "C15:gapped:outside-range:"+cc.Upper+":lower-"+cc.Lower, fmt.Sprintf("%s emitted %s; the selected range holds at most %s", desc, names(got), names(keysOf(mayC))), cc)
			return
		}
	}
	if cc.Amount >= 0 && len(got) > cc.Amount {
		p.Violate("iter-gapped", "C15:gapped:more-than-amount", fmt.Sprintf("%s emitted %d entries", desc, len(got)), cc)
		return
	}
	multi := cc.Upper == "lte" && len(cc.U) > 1
	if cc.Amount < 0 || (cc.Amount >= len(mayC) && !multi) {
		for h := range mustC {
			if !gotSet[h] {
				p.Violate("iter-gapped", "C15:gapped:range-incomplete:"+cc.Upper+":lower-"+cc.Lower, fmt.Sprintf("%s emitted %s; %s is in the selected range (all of %s is)", desc, names(got), names([]string{h}), names(keysOf(mustC))), cc)
				return
			}
		}
	} else if cc.Lower == "none" {
		// the newest `amount`: every entry of must that is newer than the oldest emitted one is emitted, and the count is
		// the amount unless the range is smaller
		// (several upper bounds with an amount: "at most" is all the statement promises, as in the main check)
		if !multi && len(got) < cc.Amount && len(got) < len(mustC) {
			p.Violate("iter-gapped", "C15:gapped:fewer-than-available", fmt.Sprintf("%s emitted only %s of a range holding at least %s", desc, names(got), names(keysOf(mustC))), cc)
			return
		}
		if len(gotE) > 0 {
			last := gotE[len(gotE)-1]
			for h := range mustC {
				if !gotSet[h] && newer(vals[pos[h]], last) {
					p.Violate("iter-gapped", "C15:gapped:not-the-newest", fmt.Sprintf("%s emitted %s but skipped the newer %s", desc, names(got), names([]string{h})), cc)
					return
				}
			}
		}
	}
	p.Add(0, 0, 1, 0)
	if len(got) > 0 && len(must) != len(may) {
		p.Nontriv(fmt.Sprint(cc))
	}
}

func keysOf(m map[string]bool) []string {
	var r []string
	for k := range m {
		r = append(r, k)
	}
	sort.Strings(r)
	return r
}

func c15Gapped(p *run.Part, tier string) {
	var cases []c15GapCase
	for _, shape := range []string{"chain8", "fork10"} {
		n := len(seqx.Replay(CfgDef3, gapShapes[shape]).Logs[0].Values().Slice())
		var removals [][]int
		removals = append(removals, nil)
		for a := 0; a < n-1; a++ {
			removals = append(removals, []int{a})
			for b := a + 1; b < n-1; b++ {
				removals = append(removals, []int{a, b})
			}
		}
		amounts := []int{-1, 0, 1, 3, n + 1}
		for _, rm := range removals {
			isRm := map[int]bool{}
			for _, r := range rm {
				isRm[r] = true
			}
			var heldIx []int
			for i := 0; i < n; i++ {
				if !isRm[i] {
					heldIx = append(heldIx, i)
				}
			}
			for _, pin := range []bool{false, true} {
				type up struct {
					kind string
					u    []int
				}
				ups := []up{{"default", nil}}
				for _, a := range heldIx {
					ups = append(ups, up{"lte", []int{a}}, up{"lt", []int{a}})
					for _, b := range heldIx {
						if a != b && (tier == "thorough" || shape == "chain8" || a > b) {
							ups = append(ups, up{"lte", []int{a, b}})
						}
					}
				}
				for _, u := range ups {
					for _, amt := range amounts {
						cases = append(cases, c15GapCase{Shape: shape, Removed: rm, PinHead: pin, Upper: u.kind, U: u.u, Lower: "none", Amount: amt})
					}
					// lower bounds only for single / default upper bounds in the quick tier
					if len(u.u) > 1 && tier != "thorough" {
						continue
					}
					for _, g := range heldIx {
						for _, lw := range []string{"gt", "gte"} {
							for _, amt := range []int{-1, 1} {
								cases = append(cases, c15GapCase{Shape: shape, Removed: rm, PinHead: pin, Upper: u.kind, U: u.u, Lower: lw, G: g, Amount: amt})
							}
						}
					}
				}
			}
		}
	}
	parallelFor(len(cases), func(i int) { gapIterOne(p, cases[i]) })
	p.SetExtra("gapped_iterator_cases", len(cases))
	p.Sample(4, c15GapCase{Shape: "chain8", Removed: []int{4}, Upper: "lte", U: []int{7, 3}, Lower: "none", Amount: -1})
}
