package seq

import (
	"fmt"
	"sort"

	"berty.tech/go-ipfs-log/entry"
	"berty.tech/go-ipfs-log/entry/sorting"
	"berty.tech/go-ipfs-log/iface"
	"github.com/ipfs/go-cid"

	"verif/engine/run"
)

// C19 — the ordering functions are lawful orders that respect causality.
//
// Entries are built directly over times {1,2,3} x clock ids {A, B, a proper prefix of A, two ids differing
// only in letter case, the empty id} x hashes {h1,h2,h3}: all 54 entries, all 2 916 ordered pairs, all 157 464 ordered triples, and
// Sort on every permutation of every subset of <= 4 (quick) / <= 5 (thorough) entries.

type c19Case struct {
	Law string `json:"law"`
	Fn  string `json:"fn"`
	E   []int  `json:"entries"` // indices into the 27-entry grid
}

type cmpFn struct {
	name string
	f    func(a, b iface.IPFSLogEntry) (int, error)
}

func sign(x int) int {
	if x < 0 {
		return -1
	}
	if x > 0 {
		return 1
	}
	return 0
}

var c19Grid []iface.IPFSLogEntry
var c19Desc []string

func c19Init() {
	if c19Grid != nil {
		return
	}
	idA := []byte{0x04, 0x11, 0xa0, 0xd3, 0x81}
	idB := []byte{0x04, 0x8b, 0xef, 0x22, 0x31}
	idP := idA[:3] // proper prefix of A
	// two ids that differ only in letter case (and are otherwise valid UTF-8): comparison must be bytewise
	idU, idL := []byte("Ab-writer"), []byte("aB-writer")
	// the empty id: a clock value like any other for the comparators (it sorts before every other id at equal time)
	ids := [][]byte{idA, idB, idP, idU, idL, {}}
	idn := []string{"A", "B", "Aprefix", "Ab-writer", "aB-writer", "empty"}
	// Three hashes of mixed identifier versions: two CIDv1 (dag-cbor, as the current codec writes) and one CIDv0
	// (as the legacy codec writes), chosen so that the orders one might compare them by disagree: as identifier
	// strings the v0 one comes first ("Qm..." < "bafy..."), while by the base58 text of the digests it lies between the
	// two v1 ones, and by raw digest bytes the two v1 ones are in the opposite order of their strings if possible.
	// An ordering that switches criteria between version pairs is then not transitive on this very triple.
	var hs []cid.Cid
	{
		b58 := func(c cid.Cid) string { return c.Hash().B58String() }
		var v1s, v0s []cid.Cid
		for i := 0; i < 24; i++ {
			c1, _ := cid.NewPrefixV1(cid.DagCBOR, 0x12).Sum([]byte(fmt.Sprintf("h%d", i)))
			c0, _ := cid.NewPrefixV0(0x12).Sum([]byte(fmt.Sprintf("g%d", i)))
			v1s, v0s = append(v1s, c1), append(v0s, c0)
		}
	search:
		for _, a := range v1s {
			for _, b := range v1s {
				// a before b as strings, b before a by digest text
				if a.String() < b.String() && b58(b) < b58(a) {
					for _, z := range v0s {
						if b58(b) < b58(z) && b58(z) < b58(a) {
							hs = []cid.Cid{a, b, z}
							break search
						}
					}
				}
			}
		}
		if hs == nil {
			panic("c19: no hash triple with disagreeing orders among the candidates")
		}
	}
	sort.Slice(hs, func(i, j int) bool { return hs[i].String() < hs[j].String() })
	for t := 1; t <= 3; t++ {
		for i := range ids {
			for h := range hs {
				e := &entry.Entry{Hash: hs[h], LogID: "X", Payload: []byte("x"), Clock: entry.NewLamportClock(ids[i], t)}
				// links between entries that tie on their whole clock: the entry with the smallest hash names the one with
				// the largest as a predecessor, the middle one names the smallest (a writer chooses clocks and links);
				// an ordering looks at clocks and hashes, never at links
				switch h {
				case 0:
					e.Next = []cid.Cid{hs[len(hs)-1]}
				case 1:
					e.Next = []cid.Cid{hs[0]}
					e.Refs = []cid.Cid{hs[len(hs)-1]}
				}
				c19Grid = append(c19Grid, e)
				c19Desc = append(c19Desc, fmt.Sprintf("(t=%d,id=%s,h%d)", t, idn[i], h+1))
			}
		}
	}
}

func c19Describe(ix []int) string {
	s := ""
	for _, i := range ix {
		s += c19Desc[i]
	}
	return s
}

func sameIDTime(a, b iface.IPFSLogEntry) bool {
	return a.GetClock().GetTime() == b.GetClock().GetTime() && string(a.GetClock().GetID()) == string(b.GetClock().GetID())
}

func c19Fns() []cmpFn {
	return []cmpFn{
		{"SortByEntryHash", sorting.SortByEntryHash},
		{"LastWriteWins", sorting.LastWriteWins},
		{"FirstWriteWins", sorting.FirstWriteWins},
		{"NoZeroes(LastWriteWins)", sorting.NoZeroes(sorting.LastWriteWins)},
		{"NoZeroes(SortByEntryHash)", sorting.NoZeroes(sorting.SortByEntryHash)},
		{"Compare", sorting.Compare},
	}
}

func c19Law(p *run.Part, law, fn string, ix []int, ok bool, what string) {
	p.Add(0, 0, 0, 1)
	if ok {
		p.Add(0, 0, 1, 0)
	}
	if !ok {
		p.Violate("laws", "C19:"+law+":"+fn, fmt.Sprintf("%s violates %s on %s: %s", fn, law, c19Describe(ix), what), c19Case{Law: law, Fn: fn, E: ix})
	}
}

// c19Pairs checks the pair laws for (i,j); c19Triples the transitivity law.
func c19Pair(p *run.Part, i, j int) {
	a, b := c19Grid[i], c19Grid[j]
	ix := []int{i, j}
	for _, f := range c19Fns() {
		ab, e1 := f.f(a, b)
		ba, e2 := f.f(b, a)
		strictHere := false // is the function claimed to be a strict total order on this pair?
		switch f.name {
		case "SortByEntryHash", "NoZeroes(SortByEntryHash)":
			strictHere = i != j
		case "LastWriteWins", "NoZeroes(LastWriteWins)":
			strictHere = !sameIDTime(a, b)
		}
		if f.name == "NoZeroes(LastWriteWins)" || f.name == "NoZeroes(SortByEntryHash)" {
			inner := sorting.LastWriteWins
			if f.name == "NoZeroes(SortByEntryHash)" {
				inner = sorting.SortByEntryHash
			}
			raw, _ := inner(a, b)
			c19Law(p, "nozeroes-errors-exactly-on-zero", f.name, ix, (raw == 0) == (e1 != nil), fmt.Sprintf("inner result %d, error %v", raw, e1))
			if e1 == nil {
				c19Law(p, "nozeroes-passes-value", f.name, ix, ab == raw, fmt.Sprintf("inner %d, wrapped %d", raw, ab))
			}
		} else {
			c19Law(p, "no-error-on-defined-entries", f.name, ix, e1 == nil && e2 == nil, fmt.Sprint(e1, e2))
		}
		if i == j && (f.name == "SortByEntryHash" || f.name == "Compare") {
			c19Law(p, "irreflexive", f.name, ix, ab == 0, fmt.Sprintf("cmp(a,a)=%d", ab))
		}
		if strictHere && e1 == nil && e2 == nil {
			c19Law(p, "total", f.name, ix, ab != 0 && ba != 0, fmt.Sprintf("cmp(a,b)=%d cmp(b,a)=%d on distinct entries", ab, ba))
			c19Law(p, "antisymmetric", f.name, ix, sign(ab) == -sign(ba), fmt.Sprintf("cmp(a,b)=%d cmp(b,a)=%d", ab, ba))
		}
		if f.name == "Compare" {
			c19Law(p, "antisymmetric", f.name, ix, sign(ab) == -sign(ba), fmt.Sprintf("cmp(a,b)=%d cmp(b,a)=%d", ab, ba))
		}
		// causality: larger time sorts after smaller
		if a.GetClock().GetTime() < b.GetClock().GetTime() && e1 == nil && e2 == nil {
			want := -1
			if f.name == "FirstWriteWins" {
				want = 1
			}
			c19Law(p, "respects-clock-time", f.name, ix, sign(ab) == want && sign(ba) == -want, fmt.Sprintf("time %d < %d but cmp(a,b)=%d cmp(b,a)=%d", a.GetClock().GetTime(), b.GetClock().GetTime(), ab, ba))
		}
	}
	lw, _ := sorting.LastWriteWins(a, b)
	fw, _ := sorting.FirstWriteWins(a, b)
	c19Law(p, "fww-is-reverse-of-lww", "FirstWriteWins", ix, fw == -lw, fmt.Sprintf("LWW=%d FWW=%d", lw, fw))
	// clock comparison
	ca, cb := a.GetClock().Compare(b.GetClock()), b.GetClock().Compare(a.GetClock())
	c19Law(p, "antisymmetric", "LamportClock.Compare", ix, sign(ca) == -sign(cb), fmt.Sprintf("%d vs %d", ca, cb))
	if a.GetClock().GetTime() < b.GetClock().GetTime() {
		c19Law(p, "respects-clock-time", "LamportClock.Compare", ix, ca < 0, fmt.Sprintf("%d", ca))
	}
	if sameIDTime(a, b) {
		c19Law(p, "equal-clocks-compare-equal", "LamportClock.Compare", ix, ca == 0, fmt.Sprintf("%d", ca))
	} else {
		c19Law(p, "distinct-clocks-compare-unequal", "LamportClock.Compare", ix, ca != 0, fmt.Sprintf("%d", ca))
	}
}

func c19Triple(p *run.Part, i, j, k int) {
	a, b, c := c19Grid[i], c19Grid[j], c19Grid[k]
	ix := []int{i, j, k}
	for _, f := range c19Fns()[:2] {
		if f.name == "LastWriteWins" && (sameIDTime(a, b) || sameIDTime(b, c) || sameIDTime(a, c)) {
			continue
		}
		ab, _ := f.f(a, b)
		bc, _ := f.f(b, c)
		ac, _ := f.f(a, c)
		if ab < 0 && bc < 0 {
			c19Law(p, "transitive", f.name, ix, ac < 0, fmt.Sprintf("a<b, b<c but cmp(a,c)=%d", ac))
		}
	}
	ab, bc, ac := a.GetClock().Compare(b.GetClock()), b.GetClock().Compare(c.GetClock()), a.GetClock().Compare(c.GetClock())
	if ab < 0 && bc < 0 {
		c19Law(p, "transitive", "LamportClock.Compare", ix, ac < 0, fmt.Sprintf("a<b, b<c but cmp(a,c)=%d", ac))
	}
	if ab == 0 && bc == 0 {
		c19Law(p, "transitive-equality", "LamportClock.Compare", ix, ac == 0, fmt.Sprintf("%d", ac))
	}
}

func c19Sort(p *run.Part, subset []int) {
	for _, f := range []cmpFn{{"SortByEntryHash", sorting.SortByEntryHash}, {"LastWriteWins", sorting.LastWriteWins}} {
		if f.name == "LastWriteWins" {
			tied := false
			for x := range subset {
				for y := x + 1; y < len(subset); y++ {
					if sameIDTime(c19Grid[subset[x]], c19Grid[subset[y]]) {
						tied = true
					}
				}
			}
			if tied {
				continue
			}
		}
		for _, rev := range []bool{false, true} {
			var ref []string
			for _, pm := range permutations(len(subset)) {
				in := make([]iface.IPFSLogEntry, len(subset))
				ix := make([]int, len(subset))
				for i, q := range pm {
					in[i] = c19Grid[subset[q]]
					ix[i] = subset[q]
				}
				sorting.Sort(f.f, in, rev)
				// permutation of the input
				got := map[iface.IPFSLogEntry]int{}
				for _, e := range in {
					got[e]++
				}
				okPerm := len(got) == len(subset)
				for _, s := range subset {
					if got[c19Grid[s]] != 1 {
						okPerm = false
					}
				}
				c19Law(p, "sort-is-permutation", f.name, ix, okPerm, "output is not a permutation of the input")
				var out []string
				for _, e := range in {
					for gi, g := range c19Grid {
						if g == e {
							out = append(out, c19Desc[gi])
						}
					}
				}
				if ref == nil {
					ref = out
				} else {
					c19Law(p, fmt.Sprintf("sort-independent-of-input-order(reverse=%v)", rev), f.name, ix, eqStrings(ref, out), fmt.Sprintf("%v vs %v", ref, out))
				}
				// sortedness
				okSorted := true
				for i := 0; i+1 < len(in); i++ {
					r, _ := f.f(in[i], in[i+1])
					if (!rev && r >= 0) || (rev && r <= 0) {
						okSorted = false
					}
				}
				c19Law(p, "sort-output-is-ordered", f.name, ix, okSorted, fmt.Sprint(out))
			}
		}
	}
}

func subsets(n, k int, fn func([]int)) {
	var cur []int
	var rec func(start int)
	rec = func(start int) {
		if len(cur) == k {
			fn(append([]int{}, cur...))
			return
		}
		for i := start; i < n; i++ {
			cur = append(cur, i)
			rec(i + 1)
			cur = cur[:len(cur)-1]
		}
	}
	rec(0)
}

func c19Run(p *run.Part, tier string) {
	c19Init()
	n := len(c19Grid)
	for i := 0; i < n; i++ {
		for j := 0; j < n; j++ {
			c19Pair(p, i, j)
			p.Nontriv(fmt.Sprint("pair", i, j))
		}
	}
	for i := 0; i < n; i++ {
		for j := 0; j < n; j++ {
			for k := 0; k < n; k++ {
				c19Triple(p, i, j, k)
			}
		}
	}
	p.Add(int64(n), int64(n*n+n*n*n), 0, 0)
	maxK := 4
	if tier == "thorough" {
		maxK = 6
	}
	nsub := 0
	for k := 2; k <= maxK; k++ {
		limit := n
		if k == 4 {
			limit = 36 // 4-subsets from the first 36 grid entries (times 1-2, all ids and hashes)
		}
		if k == 4 && tier == "thorough" {
			limit = n // every 4-subset of the whole grid
		}
		if k == 6 {
			limit = 12 // 6-subsets from the first 12 grid entries (time 1, four ids, all hashes)
		}
		if k == 5 {
			limit = 18 // 5-subsets from the first 18 grid entries (time 1, all ids and hashes)
		}
		var all [][]int
		subsets(limit, k, func(s []int) { all = append(all, s) })
		nsub += len(all)
		parallelFor(len(all), func(i int) { c19Sort(p, all[i]) })
	}
	// longer lists (a sort may treat them differently from short ones): every 5-subset (quick) and every 5-, 6- and
	// 7-subset (thorough) of eleven entries spread over the whole grid (all three times, all ids, all hashes)
	var spread []int
	for i := 0; i < n; i += 5 {
		spread = append(spread, i)
	}
	ks := []int{5}
	if tier == "thorough" {
		ks = []int{5, 6, 7}
	}
	for _, k := range ks {
		var all [][]int
		subsets(len(spread), k, func(s []int) {
			m := make([]int, len(s))
			for i, x := range s {
				m[i] = spread[x]
			}
			all = append(all, m)
		})
		nsub += len(all)
		parallelFor(len(all), func(i int) { c19Sort(p, all[i]) })
	}
	p.SetExtra("sort_subsets", nsub)
	// undefined arguments
	_, err := sorting.Compare(nil, c19Grid[0])
	c19Law(p, "compare-rejects-nil", "Compare", []int{0}, err != nil, "Compare(nil, e) returned no error")
	_, err = sorting.Compare(c19Grid[0], nil)
	c19Law(p, "compare-rejects-nil", "Compare", []int{0}, err != nil, "Compare(e, nil) returned no error")
	var undef *entry.Entry
	_, err = sorting.Compare(undef, c19Grid[0])
	c19Law(p, "compare-rejects-undefined", "Compare", []int{0}, err != nil, "Compare(undefined, e) returned no error")
	p.Sample(4, c19Case{Law: "transitive", Fn: "SortByEntryHash", E: []int{0, 4, 53}})
	p.Sample(4, map[string]string{"grid_entry_0": c19Desc[0], "grid_entry_13": c19Desc[13], "grid_entry_26": c19Desc[26]})
}

func init() {
	register(&Check{ID: "C19", Run: func(p *run.Part, tier string) {
		p.Rule = "54 entries over times{1,2,3} x ids{A,B,prefix of A,Ab-writer,aB-writer,empty} x hashes{h1,h2,h3}; every ordered pair and triple; Sort on every permutation of every subset of the stated size; non-trivial = distinct ordered pairs"
		p.Assume("the law set is the statement's; entries outside the 3x6x3 grid differ from grid entries only by values that the comparators treat through the same three comparisons (int compare, bytes.Compare, strings.Compare)")
		c19Run(p, tier)
	}, Replay: func(p *run.Part, check string, raw []byte) {
		c19Init()
		var c c19Case
		if err := jsonUnmarshal(raw, &c); err != nil {
			panic(err)
		}
		if len(c.Law) >= 4 && c.Law[:4] == "sort" {
			s := append([]int{}, c.E...)
			sort.Ints(s)
			c19Sort(p, s)
			return
		}
		switch len(c.E) {
		case 1:
			c19Run(p, "quick")
		case 2:
			c19Pair(p, c.E[0], c.E[1])
		case 3:
			c19Triple(p, c.E[0], c.E[1], c.E[2])
		}
	}})
}
