package seq

import (
	"bytes"
	"fmt"
	"sort"
	"sync"

	ipfslog "berty.tech/go-ipfs-log"
	"berty.tech/go-ipfs-log/iface"
	"github.com/ipfs/go-cid"

	"verif/engine/run"
	"verif/engine/seqx"
)

// C15 — iteration returns the requested causal range, newest first, and always ends.
//
// For every distinct replica state of the BFS (strict orderings), every option combination:
// upper in {default, LTE{e}, LTE{e1,e2} (every ordered pair), LT{e}, LTE{unknown}, LT{unknown}};
// lower in {none, GT g, GTE g} for every g in the selected range; amount in {none, 0..size+1}.
// Reference (from the model): P = causal past of the upper set, newest first; cut at g
// (inclusive/exclusive); with an amount keep the first `amount` (no lower bound) or the last
// `amount` before the cut. Single/default upper bound or no amount: the output equals that
// sequence exactly; several upper bounds with an amount: duplicate-free, a prefix (resp.
// suffix) of it and no longer than amount ("at most"). Unknown upper bound => error. Never
// panics; on a nil error the channel is closed.

type c15Case struct {
	Config  string    `json:"config"`
	Path    []seqx.Op `json:"path"`
	Replica int       `json:"replica"`
	Upper   string    `json:"upper"` // default | lte | lt | lte-unknown | lt-unknown
	U       []int     `json:"u,omitempty"`
	Lower   string    `json:"lower"` // none | gt | gte
	G       int       `json:"g,omitempty"`
	Amount  int       `json:"amount"` // -1 = none
}

var unknownCid = func() cid.Cid {
	c, err := cid.NewPrefixV1(cid.DagCBOR, 0x12).Sum([]byte("no such entry"))
	if err != nil {
		panic(err)
	}
	return c
}()

func iterOne(p *run.Part, w *seqx.World, cc c15Case) {
	l := w.Logs[cc.Replica]
	ml := w.ML[cc.Replica]
	size := len(ml.Set)
	opts := &ipfslog.IteratorOptions{}
	cidOf := func(u int) cid.Cid { return w.Ent[u].GetHash() }
	var roots []int
	expectErr := false
	switch cc.Upper {
	case "default":
		roots = w.M.Heads(ml)
	case "lte":
		for _, u := range cc.U {
			opts.LTE = append(opts.LTE, cidOf(u))
		}
		roots = cc.U
	case "lt":
		opts.LT = []cid.Cid{cidOf(cc.U[0])}
		roots = w.M.Entries[cc.U[0]].Next
	case "lte-unknown":
		opts.LTE = []cid.Cid{unknownCid}
		expectErr = true
	case "lt-unknown":
		opts.LT = []cid.Cid{unknownCid}
		expectErr = true
	}
	switch cc.Lower {
	case "gt":
		opts.GT = cidOf(cc.G)
	case "gte":
		opts.GTE = cidOf(cc.G)
	}
	if cc.Amount >= 0 {
		a := cc.Amount
		opts.Amount = &a
	}
	ch := make(chan iface.IPFSLogEntry, size+4)
	var err error
	pv, stack := run.Safe(func() { err = l.Iterator(opts, ch) })
	desc := fmt.Sprintf("after %s: replica %d Iterator(upper=%s%v lower=%s(%d) amount=%d)", seqx.PathString(cc.Path), cc.Replica, cc.Upper, cc.U, cc.Lower, cc.G, cc.Amount)
	amtClass := "none"
	if cc.Amount == 0 {
		amtClass = "zero"
	} else if cc.Amount > 0 {
		amtClass = "some"
	}
	if pv != nil {
		p.Violate("iter", fmt.Sprintf("C15:panic:lower-%v:amount-%s:%s", cc.Lower != "none", amtClass, run.PanicSite(stack)), fmt.Sprintf("%s panicked: %v at %s", desc, pv, stack), cc)
		return
	}
	p.Add(0, 1, 0, 1)
	if expectErr {
		if err == nil {
			p.Violate("iter", "C15:unknown-upper-accepted:"+cc.Upper, desc+" returned no error for an unknown upper bound", cc)
		}
		return
	}
	if err != nil {
		p.Violate("iter", "C15:error:"+cc.Upper+":"+cc.Lower, fmt.Sprintf("%s returned error %v", desc, err), cc)
		return
	}
	// drain without blocking
	var got []string
	closed := false
drain:
	for {
		select {
		case e, ok := <-ch:
			if !ok {
				closed = true
				break drain
			}
			got = append(got, e.GetHash().String())
		default:
			break drain
		}
	}
	if !closed {
		p.Violate("iter", "C15:channel-not-closed:amount-"+amtClass, desc+" returned nil but left the output channel open", cc)
	}
	// reference
	past := w.M.Past(ml.Set, roots)
	lin := w.M.Lin(past, w.Cfg.HashTie)
	var P []string // newest first
	for i := len(lin) - 1; i >= 0; i-- {
		P = append(P, cidOf(lin[i]).String())
	}
	want := P
	if cc.Lower != "none" {
		g := cidOf(cc.G).String()
		idx := -1
		for i, h := range P {
			if h == g {
				idx = i
			}
		}
		if idx < 0 {
			return // lower bound outside the selected range: not claimed
		}
		if cc.Lower == "gte" {
			want = P[:idx+1]
		} else {
			want = P[:idx]
		}
	}
	full := want
	if cc.Amount >= 0 {
		k := cc.Amount
		if k > len(want) {
			k = len(want)
		}
		if cc.Lower == "none" {
			want = want[:k]
		} else {
			want = want[len(want)-k:]
		}
	}
	if len(uniq(got)) != len(got) {
		p.Violate("iter", "C15:duplicates", fmt.Sprintf("%s emitted duplicates %s", desc, short(w, got)), cc)
		return
	}
	multi := cc.Upper == "lte" && len(cc.U) > 1
	if multi && cc.Amount >= 0 {
		ok := len(got) <= cc.Amount && len(got) <= len(full)
		if ok {
			if cc.Lower == "none" {
				ok = eqStrings(got, full[:len(got)])
			} else {
				ok = eqStrings(got, full[len(full)-len(got):])
			}
		}
		if !ok {
			p.Violate("iter", "C15:range:multi-upper:lower-"+cc.Lower, fmt.Sprintf("%s emitted %s; the selected range is %s", desc, short(w, got), short(w, full)), cc)
			return
		}
	} else if !eqStrings(got, want) {
		p.Violate("iter", fmt.Sprintf("C15:range:%s:lower-%s:amount-%s", cc.Upper, cc.Lower, amtClass), fmt.Sprintf("%s emitted %s, expected %s", desc, short(w, got), short(w, want)), cc)
		return
	}
	p.Add(0, 0, 1, 0)
	if len(want) > 0 && len(want) < size {
		p.Nontriv(fmt.Sprint(cc.Upper, cc.U, cc.Lower, cc.G, cc.Amount, want))
	}
}

func c15Probe(p *run.Part, cfg *seqx.Config, seen *sync.Map, maxSize int) func(w *seqx.World, c seqx.Case) {
	return func(w *seqx.World, c seqx.Case) {
		for r := range w.Logs {
			ml := w.ML[r]
			if len(ml.Set) == 0 || len(ml.Set) > maxSize || !w.Strict(r) {
				continue
			}
			key := cfg.Name + fmt.Sprint(ml.UIDs(), hashesOf(w.Logs[r].Heads().Slice()))
			if _, dup := seen.LoadOrStore(key, true); dup {
				continue
			}
			us := ml.UIDs()
			type up struct {
				kind string
				u    []int
			}
			ups := []up{{"default", nil}, {"lte-unknown", nil}, {"lt-unknown", nil}}
			for _, a := range us {
				ups = append(ups, up{"lte", []int{a}}, up{"lt", []int{a}})
			}
			for _, a := range us {
				for _, b := range us {
					if a != b {
						ups = append(ups, up{"lte", []int{a, b}})
					}
				}
			}
			for _, u := range ups {
				var roots []int
				switch u.kind {
				case "default":
					roots = w.M.Heads(ml)
				case "lte":
					roots = u.u
				case "lt":
					roots = w.M.Entries[u.u[0]].Next
				}
				var lows []int
				for x := range w.M.Past(ml.Set, roots) {
					lows = append(lows, x)
				}
				sort.Ints(lows)
				for amt := -1; amt <= len(ml.Set)+1; amt++ {
					iterOne(p, w, c15Case{Config: cfg.Name, Path: c.Path, Replica: r, Upper: u.kind, U: u.u, Lower: "none", Amount: amt})
					if u.kind == "lte-unknown" || u.kind == "lt-unknown" {
						continue
					}
					for _, g := range lows {
						iterOne(p, w, c15Case{Config: cfg.Name, Path: c.Path, Replica: r, Upper: u.kind, U: u.u, Lower: "gt", G: g, Amount: amt})
						iterOne(p, w, c15Case{Config: cfg.Name, Path: c.Path, Replica: r, Upper: u.kind, U: u.u, Lower: "gte", G: g, Amount: amt})
					}
				}
			}
		}
	}
}

func c15Searches(p *run.Part, tier string) []*seqx.Search {
	depth, maxSize := 4, 6
	if tier == "thorough" {
		depth, maxSize = 6, 8
	}
	dl := Budget(tier)
	seen := &sync.Map{}
	mk := func(cfg *seqx.Config, prefix string, d int) *seqx.Search {
		return &seqx.Search{Part: p, Check: "iter", Cfg: cfg, Alphabet: Alphabet(3, false), Depth: d, Prefix: Prefixes[prefix], PrefixID: prefix,
			Deadline: dl, OnState: c15Probe(p, cfg, seen, maxSize)}
	}
	// a log merged twice from a writer that went on in between (the walk meets a merge entry while another root is pending)
	Prefixes["+remerge"] = []seqx.Op{{K: "app", A: 1}, {K: "app", A: 1}, {K: "app", A: 1}, {K: "app", A: 0}, {K: "join", A: 1, B: 0}, {K: "app", A: 1}, {K: "app", A: 0}, {K: "join", A: 1, B: 0}}
	Prefixes["+remerge-w"] = []seqx.Op{{K: "app", A: 0}, {K: "app", A: 0}, {K: "app", A: 0}, {K: "app", A: 1}, {K: "join", A: 0, B: 1}, {K: "app", A: 0}, {K: "app", A: 1}, {K: "join", A: 0, B: 1}}
	return []*seqx.Search{mk(CfgDef3, "", depth), mk(CfgHash3, "", depth), mk(CfgSharedH, "", depth), mk(CfgDef3, "+remerge", 1), mk(CfgDef3, "+remerge-w", 1)}
}

func init() {
	register(&Check{ID: "C15", Run: func(p *run.Part, tier string) {
		p.Rule = "cases are Iterator calls (replica state, upper, lower, amount), replica states de-duplicated on (entry set, heads); non-trivial = distinct calls whose expected output is a proper non-empty part of the log"
		p.Assume("replica states from the 3-replica BFS up to the stated depth with <= 6 (quick) / 8 (thorough) entries; strict orderings only; lower bounds inside the selected range only; a single exclusive upper bound (the statement's scope); the iterator is not shared between goroutines here (C13 covers that)")
		runSearches(p, c15Searches(p, tier))
		c15Gapped(p, tier)
		p.Sample(8, c15Case{Config: "def3", Path: []seqx.Op{{K: "app", A: 0}, {K: "app", A: 1}, {K: "join", A: 0, B: 1}, {K: "app", A: 0}}, Replica: 0, Upper: "lte", U: []int{2, 1}, Lower: "gte", G: 0, Amount: 2})
	}, Replay: func(p *run.Part, check string, raw []byte) {
		if bytes.Contains(raw, []byte(`"shape"`)) {
			var gc c15GapCase
			if err := jsonUnmarshal(raw, &gc); err != nil {
				panic(err)
			}
			gapIterOne(p, gc)
			return
		}
		var cc c15Case
		if err := jsonUnmarshal(raw, &cc); err != nil {
			panic(err)
		}
		iterOne(p, seqx.Replay(Configs[cc.Config], cc.Path), cc)
	}})
}
