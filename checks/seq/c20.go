package seq

import (
	"bytes"
	"context"
	"encoding/hex"
	"fmt"
	"sort"
	"strings"

	"berty.tech/go-ipfs-log/entry"
	idp "berty.tech/go-ipfs-log/identityprovider"
	"berty.tech/go-ipfs-log/keystore"
	ds "github.com/ipfs/go-datastore"
	dssync "github.com/ipfs/go-datastore/sync"
	"github.com/libp2p/go-libp2p/core/crypto"

	"verif/engine/run"
	"verif/engine/store"
	"verif/engine/world"
)

// C20 — key material and identities are stable and self-consistent.
//
// Explicit-state BFS over two keystore instances K0,K1 on one datastore and ids {a, p/a (, q:a)}:
// create(k,id) (only when absent), get(k,id), has(k,id), ident(k,id) (CreateIdentity),
// fill(k) (create 128 filler keys: evicts the whole LRU), reopen(k) (fresh instance on the
// same datastore). Model: id -> key bytes, id -> first identity. Oracle: get returns the
// created key; has is true exactly for created ids (an error counts as "absent" only for ids
// never created); identities for the same id are equal field by field, their signatures
// verify as the statement says, and an entry signed with one verifies.

type ksOp struct {
	K  string `json:"k"` // create|get|has|ident|fill|reopen
	I  int    `json:"i"` // keystore instance
	ID string `json:"id,omitempty"`
}

func (o ksOp) String() string {
	if o.ID == "" {
		return fmt.Sprintf("%s(K%d)", o.K, o.I)
	}
	return fmt.Sprintf("%s(K%d,%s)", o.K, o.I, o.ID)
}

type ksWorld struct {
	d       ds.Datastore
	ks      [2]*keystore.Keystore
	created map[string][]byte        // model: id -> raw private key
	idents  map[string]*idp.Identity // model: first identity created for id
	derived map[string]string        // id -> derived hex id (known after ident)
	touched [2]map[string]bool       // harness-side prediction of what each cache holds (state key only)
	missed  [2]map[string]bool       // per instance: which kinds of lookups (get miss, has miss, has hit) touched which id since the last eviction/reopen. A cache may remember any of them differently, so they are part of the state key (an abstraction that merged "missed through GetKey" with "missed through HasKey" hid a seeded negative-caching defect)
	nfill   int
	held    []heldKey            // key objects handed out so far: they must stay the keys they were
	fd      *failingDS           // the datastore, able to refuse the next Put
	expect  map[string][2]string // id -> independently computed (identity id, published key), for pre-seeded keys
}

func newKsWorld() *ksWorld {
	fd := &failingDS{Datastore: dssync.MutexWrap(ds.NewMapDatastore())}
	w := &ksWorld{d: fd, fd: fd, created: map[string][]byte{}, idents: map[string]*idp.Identity{}, derived: map[string]string{}}
	for i := range w.ks {
		k, err := keystore.NewKeystore(w.d)
		if err != nil {
			panic(err)
		}
		w.ks[i] = k
		w.touched[i] = map[string]bool{}
		w.missed[i] = map[string]bool{}
	}
	return w
}

func (w *ksWorld) key() string {
	var cr, idn []string
	for k := range w.created {
		if !strings.HasPrefix(k, "filler") {
			cr = append(cr, w.abstract(k))
		}
	}
	for k := range w.idents {
		idn = append(idn, k)
	}
	sort.Strings(cr)
	sort.Strings(idn)
	var t [2][]string
	for i := range t {
		for k := range w.touched[i] {
			t[i] = append(t[i], w.abstract(k))
		}
		for k := range w.missed[i] {
			t[i] = append(t[i], "miss:"+w.abstract(k))
		}
		sort.Strings(t[i])
	}
	return fmt.Sprint(cr, idn, t)
}

// abstract renames derived hex ids to "d(<id>)" so that keys are comparable across runs (keys are random).
func (w *ksWorld) abstract(k string) string {
	for id, d := range w.derived {
		if d == k {
			return "d(" + id + ")"
		}
	}
	return k
}

type heldKey struct {
	id  string
	key crypto.PrivKey
	raw []byte
}

// hold remembers a key object a caller received.
func (w *ksWorld) hold(id string, k crypto.PrivKey) {
	if len(w.held) < 12 {
		w.held = append(w.held, heldKey{id, k, rawOf(k)})
	}
}

// heldIntact: every key object handed out earlier still is the key it was (a cache that recycles or wipes the
// objects it gave to callers changes keys under their feet).
func (w *ksWorld) heldIntact() (string, bool) {
	for _, h := range w.held {
		if !bytes.Equal(rawOf(h.key), h.raw) {
			return h.id, false
		}
	}
	return "", true
}

// failingDS refuses the next Put when told to (a full disk, a closed store): the write error is returned to the keystore.
type failingDS struct {
	ds.Datastore
	failNextPut bool
}

func (f *failingDS) Put(ctx context.Context, k ds.Key, v []byte) error {
	if f.failNextPut {
		f.failNextPut = false
		return fmt.Errorf("datastore: injected write error")
	}
	return f.Datastore.Put(ctx, k, v)
}

func rawOf(k crypto.PrivKey) []byte {
	b, _ := k.Raw()
	return b
}

type ksCase struct {
	Path []ksOp `json:"path"`
	// Seed: the datastore already holds, for id "z", an id key and a signing key of these two shapes (c20crafted.go)
	Seed []string `json:"seed,omitempty"`
}

func ksPath(p []ksOp) string {
	var s []string
	for _, o := range p {
		s = append(s, o.String())
	}
	return strings.Join(s, " ")
}

// apply executes op, checks it against the model and returns false if the op is not enabled.
func (w *ksWorld) apply(p *run.Part, o ksOp, c ksCase, judge bool) bool {
	ok := w.applyOp(p, o, c, judge)
	if ok && judge {
		if id, intact := w.heldIntact(); !intact {
			p.Violate("keystore", "C20:held-key-changed", "after "+ksPath(c.Path)+": the key object returned earlier for "+w.abstract(id)+" no longer is that key (its private bytes changed)", c)
		}
	}
	return ok
}

func (w *ksWorld) applyOp(p *run.Part, o ksOp, c ksCase, judge bool) bool {
	ctx := world.Ctx
	ks := w.ks[o.I]
	viol := func(key, what string) {
		if judge {
			p.Violate("keystore", key, "after "+ksPath(c.Path)+": "+what, c)
		}
	}
	switch o.K {
	case "create":
		if _, ok := w.created[o.ID]; ok {
			return false
		}
		k, err := ks.CreateKey(ctx, o.ID)
		if err != nil {
			viol("C20:create-failed", fmt.Sprintf("CreateKey(%s) failed: %v", o.ID, err))
			return true
		}
		w.created[o.ID] = rawOf(k)
		w.touched[o.I][o.ID] = true
		w.hold(o.ID, k)
	case "createfail":
		// the datastore refuses the write: no key was created, on this instance or anywhere
		if _, ok := w.created[o.ID]; ok {
			return false
		}
		w.fd.failNextPut = true
		_, err := ks.CreateKey(ctx, o.ID)
		w.fd.failNextPut = false
		if err == nil {
			viol("C20:create-succeeded-without-the-write", fmt.Sprintf("CreateKey(%s) returned a key although the datastore refused the write", o.ID))
		}
		w.missed[o.I]["createfail:"+o.ID] = true
	case "identcancel":
		// CreateIdentity under a context that is already cancelled: it may fail, it may succeed; what it must not do is
		// replace key material that exists (a lookup that fails for ANY reason is not "the key does not exist")
		cctx, cancel := context.WithCancel(ctx)
		cancel()
		before := map[string][]byte{}
		for id := range w.created {
			if v, err := w.fd.Datastore.Get(ctx, ds.NewKey(id)); err == nil {
				before[id] = v
			}
		}
		_, _ = idp.CreateIdentity(cctx, &idp.CreateIdentityOptions{Keystore: ks, ID: o.ID, Type: "orbitdb"})
		for id, v := range before {
			if now, err := w.fd.Datastore.Get(ctx, ds.NewKey(id)); err != nil || !bytes.Equal(now, v) {
				viol("C20:stored-key-replaced:cancelled-context", fmt.Sprintf("CreateIdentity(%s) under a cancelled context replaced the stored key of %s", o.ID, w.abstract(id)))
			}
		}
		// keys it may have created are new facts of the world
		for _, id := range []string{o.ID} {
			if _, ok := w.created[id]; !ok {
				if v, err := w.fd.Datastore.Get(ctx, ds.NewKey(id)); err == nil {
					w.created[id] = v
				}
			}
		}
		w.missed[o.I]["identcancel:"+o.ID] = true
	case "get":
		k, err := ks.GetKey(ctx, o.ID)
		want, ok := w.created[o.ID]
		if !ok {
			w.missed[o.I]["get:"+o.ID] = true
			if err == nil {
				viol("C20:get-invented-key", fmt.Sprintf("GetKey(%s) returned a key for an id that was never created", o.ID))
			}
			return true
		}
		if err != nil {
			viol("C20:get-lost-key", fmt.Sprintf("GetKey(%s) failed for a created key: %v", o.ID, err))
			return true
		}
		if !bytes.Equal(rawOf(k), want) {
			viol("C20:get-different-key", fmt.Sprintf("GetKey(%s) returned a key different from the one created", o.ID))
		}
		w.touched[o.I][o.ID] = true
		w.hold(o.ID, k)
	case "has":
		has, err := ks.HasKey(ctx, o.ID)
		_, ok := w.created[o.ID]
		if !ok {
			w.missed[o.I]["has:"+o.ID] = true
		} else {
			w.missed[o.I]["hashit:"+o.ID] = true
		}
		cached := "uncached"
		if w.touched[o.I][o.ID] {
			cached = "cached"
		}
		if ok && (!has || err != nil) {
			viol("C20:has-false-for-created:"+cached, fmt.Sprintf("HasKey(%s) = %v, %v for a key that exists in the datastore (predicted %s in this instance)", o.ID, has, err, cached))
		}
		if !ok && has {
			viol("C20:has-true-for-absent", fmt.Sprintf("HasKey(%s) = true for an id that was never created", o.ID))
		}
	case "ident":
		id, err := idp.CreateIdentity(ctx, &idp.CreateIdentityOptions{Keystore: ks, ID: o.ID, Type: "orbitdb"})
		if err != nil {
			viol("C20:identity-failed", fmt.Sprintf("CreateIdentity(%s) failed: %v", o.ID, err))
			return true
		}
		// lock-step model update: the keys CreateIdentity had to create
		if _, ok := w.created[o.ID]; !ok {
			if k, err := ks.GetKey(ctx, o.ID); err == nil {
				w.created[o.ID] = rawOf(k)
			}
		}
		if _, ok := w.created[id.ID]; !ok {
			if k, err := ks.GetKey(ctx, id.ID); err == nil {
				w.created[id.ID] = rawOf(k)
			}
		}
		w.derived[o.ID] = id.ID
		w.touched[o.I][o.ID] = true
		w.touched[o.I][id.ID] = true
		w.checkIdentity(p, o, id, c, judge)
	case "fill":
		for i := 0; i < 128; i++ {
			w.nfill++
			name := fmt.Sprintf("filler%d", w.nfill)
			k, err := ks.CreateKey(ctx, name)
			if err != nil {
				viol("C20:create-failed", fmt.Sprintf("CreateKey(%s) failed: %v", name, err))
				return true
			}
			w.created[name] = rawOf(k)
		}
		w.touched[o.I] = map[string]bool{}
		w.missed[o.I] = map[string]bool{}
	case "reopen":
		k, err := keystore.NewKeystore(w.d)
		if err != nil {
			panic(err)
		}
		w.ks[o.I] = k
		w.touched[o.I] = map[string]bool{}
		w.missed[o.I] = map[string]bool{}
	}
	return true
}

func (w *ksWorld) checkIdentity(p *run.Part, o ksOp, id *idp.Identity, c ksCase, judge bool) {
	if !judge {
		if _, ok := w.idents[o.ID]; !ok {
			w.idents[o.ID] = id
		}
		return
	}
	viol := func(key, what string) { p.Violate("keystore", key, "after "+ksPath(c.Path)+": "+what, c) }
	if first, ok := w.idents[o.ID]; ok {
		if first.ID != id.ID || !bytes.Equal(first.PublicKey, id.PublicKey) || first.Type != id.Type ||
			!bytes.Equal(first.Signatures.ID, id.Signatures.ID) || !bytes.Equal(first.Signatures.PublicKey, id.Signatures.PublicKey) {
			field := "signatures"
			if first.ID != id.ID {
				field = "id"
			} else if !bytes.Equal(first.PublicKey, id.PublicKey) {
				field = "publicKey"
			}
			viol("C20:identity-unstable:"+field, fmt.Sprintf("CreateIdentity(%s) differs from the identity created earlier for the same id (field %s)", o.ID, field))
		}
	} else {
		w.idents[o.ID] = id
	}
	if ex, ok := w.expect[o.ID]; ok {
		if id.ID != ex[0] {
			viol("C20:identity-id-not-the-id-key", fmt.Sprintf("identity.ID is %s, the compressed public key of the stored id key is %s", id.ID, ex[0]))
		}
		if hex.EncodeToString(id.PublicKey) != ex[1] {
			viol("C20:published-key-not-the-signing-key", fmt.Sprintf("identity.PublicKey is %x, the uncompressed public key (04 || X || Y, 32 bytes each) of the stored signing key is %s", id.PublicKey, ex[1]))
		}
	}
	// id signature verifies under the published public key over the id
	pub, err := crypto.UnmarshalSecp256k1PublicKey(id.PublicKey)
	if err != nil {
		viol("C20:published-key-unparsable", "identity.PublicKey does not parse: "+err.Error())
		return
	}
	if ok, err := pub.Verify([]byte(id.ID), id.Signatures.ID); err != nil || !ok {
		viol("C20:id-signature", "the id signature does not verify under the published public key over the id")
	}
	// public-key signature verifies under the key the id denotes
	idKeyBytes, err := hex.DecodeString(id.ID)
	if err != nil {
		viol("C20:id-not-hex", "identity.ID is not the hex form of a key")
		return
	}
	idPub, err := crypto.UnmarshalSecp256k1PublicKey(idKeyBytes)
	if err != nil {
		viol("C20:id-not-a-key", "identity.ID does not denote a public key: "+err.Error())
		return
	}
	signed := []byte(hex.EncodeToString(append(append([]byte{}, id.PublicKey...), id.Signatures.ID...)))
	if ok, err := idPub.Verify(signed, id.Signatures.PublicKey); err != nil || !ok {
		viol("C20:pubkey-signature", "the public-key signature does not verify under the key the id denotes")
	}
	// an entry signed with the identity verifies under the published key bytes
	st := store.New()
	e, err := entry.CreateEntry(world.Ctx, st, id, &entry.Entry{LogID: "X", Payload: []byte("hello"), Clock: entry.NewLamportClock(id.PublicKey, 1)}, nil)
	if err != nil {
		viol("C20:entry-sign-failed", "creating an entry with the identity failed: "+err.Error())
		return
	}
	if !bytes.Equal(e.GetKey(), id.PublicKey) {
		viol("C20:entry-key", "the entry key is not the published public key")
	}
	if err := e.Verify(id.Provider, defaultIO()); err != nil {
		viol("C20:entry-verify", "an entry signed with the identity does not verify: "+err.Error())
	}
	p.Add(0, 0, 1, 0)
}

func ksReplay(p *run.Part, c ksCase) *ksWorld {
	w := newKsWorld()
	if len(c.Seed) == 2 {
		w.seed(c.Seed[0], c.Seed[1])
	}
	for i, o := range c.Path {
		w.apply(p, o, ksCase{Path: c.Path[:i+1], Seed: c.Seed}, i == len(c.Path)-1 || len(c.Seed) == 2)
	}
	return w
}

func c20Run(p *run.Part, tier string) {
	depth := 5
	if tier == "thorough" {
		depth = 7
	}
	dl := Budget(tier)
	var alpha []ksOp
	for _, k := range []string{"create", "get", "has", "ident"} {
		for i := 0; i < 2; i++ {
			for _, id := range ksIDs(tier) {
				alpha = append(alpha, ksOp{K: k, I: i, ID: id})
			}
		}
	}
	for i := 0; i < 2; i++ {
		alpha = append(alpha, ksOp{K: "fill", I: i}, ksOp{K: "reopen", I: i})
	}
	alpha = append(alpha, ksOp{K: "createfail", I: 0, ID: "a"}, ksOp{K: "identcancel", I: 1, ID: "a"})
	// has/get on the derived id of a are part of the alphabet too (the id an identity denotes)
	seen := map[string]bool{newKsWorld().key(): true}
	frontier := [][]ksOp{{}}
	states, trans := 1, 0
	for d := 0; d < depth && len(frontier) > 0; d++ {
		if dl.Expired() {
			p.Inexhaustive(fmt.Sprintf("deadline at depth %d", d))
			break
		}
		type res struct {
			key  string
			path []ksOp
			ok   bool
		}
		out := make([][]res, len(frontier))
		parallelFor(len(frontier), func(fi int) {
			if dl.Expired() {
				p.Inexhaustive(fmt.Sprintf("deadline inside depth %d", d+1))
				return
			}
			for _, o := range alpha {
				np := append(append([]ksOp{}, frontier[fi]...), o)
				w := newKsWorld()
				enabled := true
				for i, q := range np {
					if !w.apply(p, q, ksCase{Path: np[:i+1]}, i == len(np)-1) {
						enabled = false
					}
				}
				if !enabled {
					continue
				}
				// derived-id probes in the reached state (has/get of the id an identity denotes), on both instances
				for id, dv := range w.derived {
					for i := 0; i < 2; i++ {
						pc := ksCase{Path: append(append([]ksOp{}, np...), ksOp{K: "has", I: i, ID: "derived:" + id})}
						has, err := w.ks[i].HasKey(world.Ctx, dv)
						if !has || err != nil {
							cached := "uncached"
							if w.touched[i][dv] {
								cached = "cached"
							}
							p.Violate("keystore", "C20:has-false-for-created:"+cached, fmt.Sprintf("after %s: HasKey(<id denoted by identity %s>) on K%d = %v, %v although the key exists", ksPath(np), id, i, has, err), pc)
						}
					}
				}
				out[fi] = append(out[fi], res{w.key(), np, true})
			}
		})
		var next [][]ksOp
		for fi := range out {
			for _, r := range out[fi] {
				trans++
				if !seen[r.key] {
					seen[r.key] = true
					states++
					next = append(next, r.path)
					if strings.Contains(r.key, "d(") {
						p.Nontriv(r.key)
					}
				}
			}
		}
		frontier = next
	}
	p.Add(int64(states), int64(trans), 0, int64(trans))
	p.SetExtra("depth", depth)
	if len(frontier) > 0 {
		p.Sample(4, ksPath(frontier[len(frontier)/2]))
		p.Sample(4, ksPath(frontier[len(frontier)-1]))
	}
}

// ksIDs: a plain id and a structured one whose last path segment is the plain id (a datastore key has
// namespaces; a cache keyed by less than the full id would confuse them); thorough adds a "type:value" id.
func ksIDs(tier string) []string {
	if tier == "thorough" {
		return []string{"a", "p/a", "q:a"}
	}
	return []string{"a", "p/a"}
}

func parallelFor(n int, fn func(i int)) {
	idx := make(chan int, n)
	for i := 0; i < n; i++ {
		idx <- i
	}
	close(idx)
	done := make(chan bool)
	for k := 0; k < 16; k++ {
		go func() {
			for i := range idx {
				fn(i)
			}
			done <- true
		}()
	}
	for k := 0; k < 16; k++ {
		<-done
	}
}

func init() {
	register(&Check{ID: "C20", Run: func(p *run.Part, tier string) {
		p.Rule = "states = (created ids, ids with an identity, predicted cache contents of each instance); non-trivial = states in which an identity (hence a derived key) exists"
		p.Assume("two keystore instances, ids {a,b} plus the ids their identities denote, 128-key fillers for eviction; keys are random, so states are compared on abstract names; ECDSA/secp256k1 soundness is assumed")
		c20Run(p, tier)
		c20Crafted(p, tier)
	}, Replay: func(p *run.Part, check string, raw []byte) {
		var c ksCase
		if err := jsonUnmarshal(raw, &c); err != nil {
			panic(err)
		}
		last := c.Path[len(c.Path)-1]
		if strings.HasPrefix(last.ID, "derived:") {
			w := ksReplay(run.NewPart("C20", "seq", "scratch"), ksCase{Path: c.Path[:len(c.Path)-1]})
			dv := w.derived[strings.TrimPrefix(last.ID, "derived:")]
			has, err := w.ks[last.I].HasKey(world.Ctx, dv)
			if !has || err != nil {
				cached := "uncached"
				if w.touched[last.I][dv] {
					cached = "cached"
				}
				p.Violate("keystore", "C20:has-false-for-created:"+cached, "HasKey of the derived id is false", c)
			}
			return
		}
		ksReplay(p, c)
	}})
}
