package seq

import (
	"fmt"

	"berty.tech/go-ipfs-log/iface"

	"verif/engine/run"
	"verif/engine/seqx"
)

// C05 — the log is append-only.
//
// Before every transition every entry of every replica is dumped field by field and every
// replica's Values() is recorded. After it: each previously present entry is still returned
// by Get(hash) with an identical dump; the old Values() is a subsequence of the new one;
// Len() did not drop; replicas the operation did not name as destination are unchanged
// (entries held by other log instances are never altered).

func isSubsequence(old, cur []string) bool {
	j := 0
	for _, h := range cur {
		if j < len(old) && old[j] == h {
			j++
		}
	}
	return j == len(old)
}

func appendOnlyOracle(p *run.Part, check string, w *seqx.World, pre *seqx.Pre, op seqx.Op, c seqx.Case) {
	path := seqx.PathString(c.Path)
	for i, l := range w.Logs {
		for _, old := range pre.Entries[i] {
			h := old.GetHash()
			got, ok := l.Get(h)
			if !ok || got == nil {
				p.Violate(check, "C05:entry-vanished", fmt.Sprintf("after %s: replica %d no longer holds %s", path, i, short(w, []string{h.String()})), c)
				continue
			}
			if d := seqx.DumpEntry(got); d != pre.Bytes[i][h.String()] {
				p.Violate(check, "C05:entry-changed", fmt.Sprintf("after %s: replica %d entry %s changed:\n  before %s\n  after  %s", path, i, short(w, []string{h.String()}), pre.Bytes[i][h.String()], d), c)
			}
			// the instance captured before the call must not have been mutated either
			if d := seqx.DumpEntry(old); d != pre.Bytes[i][h.String()] {
				p.Violate(check, "C05:held-entry-mutated", fmt.Sprintf("after %s: an entry object held before the call was mutated in place: %s", path, short(w, []string{h.String()})), c)
			}
		}
		// the views show the same content as Get: an entry already held keeps its content in Values() and Heads() too
		for _, view := range [][]iface.IPFSLogEntry{l.Values().Slice(), l.Heads().Slice()} {
			for _, e := range view {
				if was, ok := pre.Bytes[i][e.GetHash().String()]; ok && seqx.DumpEntry(e) != was {
					p.Violate(check, "C05:entry-changed-in-view", fmt.Sprintf("after %s: replica %d shows entry %s in Values()/Heads() with content that differs from what it held:\n  before %s\n  after  %s", path, i, short(w, []string{e.GetHash().String()}), was, seqx.DumpEntry(e)), c)
				}
			}
		}
		cur := hashesOf(l.Values().Slice())
		if !isSubsequence(pre.Values[i], cur) {
			key := "C05:values-not-subsequence"
			if !pre.Strict[i] || !w.Strict(i) {
				// the flipped entries are tied on (clock id, time): the default ordering leaves their order open
				if onlyTiesFlipped(w, pre.Values[i], cur) {
					key = "C05:values-reordered-among-ties"
				}
			}
			p.Violate(check, key, fmt.Sprintf("after %s: replica %d previous Values() %s is not a subsequence of %s", path, i, short(w, pre.Values[i]), short(w, cur)), c)
		} else {
			p.Add(0, 0, 1, 0)
		}
		if l.Len() < pre.Len[i] {
			p.Violate(check, "C05:len-decreased", fmt.Sprintf("after %s: replica %d Len() went from %d to %d", path, i, pre.Len[i], l.Len()), c)
		}
		if i != op.A {
			if !eqStrings(cur, pre.Values[i]) || !eqStrings(hashesOf(l.Heads().Slice()), pre.Heads[i]) || l.Clock.GetTime() != pre.Clock[i] {
				p.Violate(check, "C05:bystander-changed", fmt.Sprintf("after %s: replica %d was not the destination of %s but changed", path, i, op), c)
			}
		}
	}
}

// onlyTiesFlipped reports whether every pair ordered differently in old and cur has equal (clock id, time).
func onlyTiesFlipped(w *seqx.World, old, cur []string) bool {
	pos := map[string]int{}
	for i, h := range cur {
		pos[h] = i
	}
	for a := 0; a < len(old); a++ {
		for b := a + 1; b < len(old); b++ {
			pa, oka := pos[old[a]]
			pb, okb := pos[old[b]]
			if !oka || !okb {
				return false
			}
			if pa > pb {
				ua, ub := w.UID[old[a]], w.UID[old[b]]
				ea, eb := w.M.Entries[ua], w.M.Entries[ub]
				if ea.Time != eb.Time || ea.Writer != eb.Writer {
					return false
				}
			}
		}
	}
	return true
}

func c05Searches(p *run.Part, tier string) []*seqx.Search {
	depth, pd := 6, 2
	if tier == "thorough" {
		depth, pd = 8, 3
	}
	dl := Budget(tier)
	mk := func(cfg *seqx.Config, prefix string, d int) *seqx.Search {
		return &seqx.Search{Part: p, Check: "bfs", Cfg: cfg, Alphabet: Alphabet(3, true), Depth: d, Prefix: Prefixes[prefix], PrefixID: prefix,
			Deadline: dl, NeedPre: true, Nontrivial: forked,
			OnTransition: func(w *seqx.World, pre *seqx.Pre, op seqx.Op, st *seqx.Step, c seqx.Case) {
				if w.Cfg == CfgMixIO && op.K == "join" && st.Err != nil && st.Panic == "" {
					st = &seqx.Step{UID: -1} // merges across codecs are refused; the append-only oracle applies to both sides all the same
				}
				if expectedDenial(w, pre, op, st) {
					// a merge or append the destination's access policy must refuse: the log must stay as it was,
					// and the property's oracle below applies to the unchanged log as to any other state
					st = &seqx.Step{UID: -1}
				}
				if stepFailure(p, "bfs", op, st, c) {
					return
				}
				appendOnlyOracle(p, "bfs", w, pre, op, c)
			}}
	}
	return []*seqx.Search{mk(CfgDef3, "", depth), mk(CfgHash3, "", depth-1), mk(CfgShared3, "", depth), mk(CfgSharedH, "", depth-1),
		mk(CfgDef3, "+fork12", pd), mk(CfgDef3, "+tri4", pd), mkPolicy(mk, "denyB/default", depth), mkPolicy(mk, "denyP3/default", depth),
		mk2(mk, depth+2), mkMixedCodec(mk, depth), mkEmpty(mk, CfgDef3, depth-1), mkPartial(mk, depth), mkSetID(mk, depth-1)}
}

func init() {
	register(&Check{ID: "C05", Run: func(p *run.Part, tier string) {
		p.Rule = ruleForked
		p.Assume("replicas <= 3, writers <= 3 (one configuration with a writer shared by two replicas), depth as in extra.searches; unbounded merges only (the statement excludes size bounds)")
		runSearches(p, c05Searches(p, tier))
	}, Replay: seqReplay(c05Searches)})
}

func mkMixedCodec(mk func(cfg *seqx.Config, prefix string, d int) *seqx.Search, depth int) *seqx.Search {
	s := mk(CfgMixIO, "", depth)
	s.Alphabet = Alphabet2()
	return s
}
