// Package seq holds the Engine A / Engine C checks (plain tree, no overlay).
package seq

import (
	"fmt"
	"sort"
	"strings"
	"time"

	ipfslog "berty.tech/go-ipfs-log"
	"berty.tech/go-ipfs-log/entry/sorting"
	"berty.tech/go-ipfs-log/iface"

	"verif/engine/run"
	"verif/engine/seqx"
)

// Check is one registered property check of this binary.
type Check struct {
	ID     string
	Run    func(p *run.Part, tier string)
	Replay func(p *run.Part, check string, raw []byte) // re-executes one recorded case, recording violations into p
}

var Registry = map[string]*Check{}

func register(c *Check) { Registry[c.ID] = c }

// Budget returns the internal deadline of a tier.
func Budget(tier string) *run.Deadline {
	if tier == "thorough" {
		return run.NewDeadline(25 * time.Minute)
	}
	return run.NewDeadline(900 * time.Second)
}

var (
	CfgDef3    = &seqx.Config{Name: "def3", Writers: []int{0, 1, 2}, PC: 4}
	CfgHash3   = &seqx.Config{Name: "hash3", Writers: []int{0, 1, 2}, PC: 4, HashTie: true}
	CfgShared3 = &seqx.Config{Name: "shared3", Writers: []int{0, 1, 0}, PC: 4}
	CfgSharedH = &seqx.Config{Name: "sharedhash3", Writers: []int{0, 1, 0}, PC: 4, HashTie: true}
	CfgDef2    = &seqx.Config{Name: "def2", Writers: []int{0, 1}, PC: 4}
	CfgSetID3  = &seqx.Config{Name: "setid3", Writers: []int{0, 1, 2}, PC: 4}
	CfgPart2   = &seqx.Config{Name: "partial2", Writers: []int{0, 1}, PC: 4}
	// replica 1 starts a thousand ticks ahead (clock gaps), replica 2 beyond 2^53 at a value no float64 holds exactly
	// (wall-clock nanoseconds are of that size): clock arithmetic must be integer arithmetic
	CfgClk3 = &seqx.Config{Name: "clk3", Writers: []int{0, 1, 2}, PC: 4, StartClock: []int{0, 1000, 1<<60 + 99}}
	// small clock gaps (replica 1 starts one tick ahead, replica 2 two): states in which the number of entries
	// coincides with the largest clock time although the log is not a chain
	CfgGap3 = &seqx.Config{Name: "gap3", Writers: []int{0, 1, 2}, PC: 4, StartClock: []int{0, 1, 2}}
	CfgFww3 = &seqx.Config{Name: "fww3", Writers: []int{0, 1, 2}, PC: 4, FirstWins: true}
	// replica 0 orders with FirstWriteWins, the writers 1 and 2 with the default: a reader whose ordering differs from the writers'
	CfgMixSort = &seqx.Config{Name: "mixedsort3", Writers: []int{0, 1, 2}, PC: 4, SortFor: func(i int) iface.EntrySortFn {
		if i == 0 {
			return sorting.FirstWriteWins
		}
		return nil
	}}
	// replica 0 writes and verifies with a link key, replica 1 with the default codec: merges between them are
	// refused (the signatures do not match the other codec's pre-sign step); nothing may change on either side
	CfgMixIO = &seqx.Config{Name: "mixedcodec2", Writers: []int{0, 1}, PC: 4, IOFor: func(i int) iface.IO {
		if i == 0 {
			return linkKeyIO("K1")
		}
		return nil
	}}
)

var Configs = map[string]*seqx.Config{}

func init() {
	for _, c := range []*seqx.Config{CfgDef3, CfgHash3, CfgShared3, CfgSharedH, CfgDef2, CfgClk3, CfgFww3, CfgMixSort, CfgMixIO, cfgMany8, CfgGap3, CfgPart2, CfgSetID3} {
		Configs[c.Name] = c
	}
}

// Alphabet builds appends and directed joins over n replicas.
func Alphabet(n int, extras bool) []seqx.Op {
	var a []seqx.Op
	for i := 0; i < n; i++ {
		a = append(a, seqx.Op{K: "app", A: i})
	}
	for i := 0; i < n; i++ {
		for j := 0; j < n; j++ {
			if i != j {
				a = append(a, seqx.Op{K: "join", A: i, B: j})
			}
		}
	}
	if extras {
		a = append(a, seqx.Op{K: "joinself", A: 0}, seqx.Op{K: "joinempty", A: 0}, seqx.Op{K: "joinforeign", A: 0},
			seqx.Op{K: "joinforeign", A: 0, B: 1}, seqx.Op{K: "joinforeign", A: 0, B: 2}, seqx.Op{K: "joinforeign", A: 0, B: 3})
	}
	return a
}

// Alphabet2 is the two-replica alphabet (4 operations): cheap enough for depth 8-9.
func Alphabet2() []seqx.Op {
	return []seqx.Op{{K: "app", A: 0}, {K: "app", A: 1}, {K: "join", A: 0, B: 1}, {K: "join", A: 1, B: 0}}
}

// WithEmpty adds an append with an empty payload (a legal entry) by replica 1.
func WithEmpty(a []seqx.Op) []seqx.Op {
	return append(append([]seqx.Op{}, a...), seqx.Op{K: "appempty", A: 1})
}

// Macro prefixes: non-initial start states the depth bound cannot reach from empty.
func chain(r, n int) []seqx.Op {
	var p []seqx.Op
	for i := 0; i < n; i++ {
		p = append(p, seqx.Op{K: "app", A: r})
	}
	return p
}

var Prefixes = map[string][]seqx.Op{
	"": nil,
	// three-operation starts from which a depth-5 search reaches histories of eight operations
	"+ab-merged": {{K: "app", A: 0}, {K: "app", A: 1}, {K: "join", A: 1, B: 0}},
	"+abc":       {{K: "app", A: 0}, {K: "app", A: 1}, {K: "app", A: 2}},
	"+a-spread":  {{K: "app", A: 0}, {K: "join", A: 1, B: 0}, {K: "join", A: 2, B: 0}},
	"+chain20":   chain(0, 20),
	"+fork12": append(append(append(chain(0, 4), seqx.Op{K: "join", A: 1, B: 0}), append(chain(0, 8), chain(1, 8)...)...),
		seqx.Op{K: "join", A: 0, B: 1}),
	"+tri4": append(append(append(chain(0, 4), chain(1, 4)...), chain(2, 4)...),
		seqx.Op{K: "join", A: 0, B: 1}, seqx.Op{K: "join", A: 1, B: 2}, seqx.Op{K: "join", A: 2, B: 0}),
}

func sortedStrings(a []string) []string {
	b := append([]string{}, a...)
	sort.Strings(b)
	return b
}

func eqStrings(a, b []string) bool {
	if len(a) != len(b) {
		return false
	}
	for i := range a {
		if a[i] != b[i] {
			return false
		}
	}
	return true
}

func hashesOf(es []iface.IPFSLogEntry) []string {
	r := make([]string, 0, len(es))
	for _, e := range es {
		if e == nil {
			r = append(r, "<nil>")
			continue
		}
		r = append(r, e.GetHash().String())
	}
	return r
}

// unreferenced computes, from the entries the log itself reports, the ones no other entry names in next.
func unreferenced(es []iface.IPFSLogEntry) []string {
	ref := map[string]bool{}
	for _, e := range es {
		for _, n := range e.GetNext() {
			ref[n.String()] = true
		}
	}
	var r []string
	for _, e := range es {
		if !ref[e.GetHash().String()] {
			r = append(r, e.GetHash().String())
		}
	}
	sort.Strings(r)
	return r
}

// short renders CIDs by payload for messages.
func short(w *seqx.World, cids []string) string {
	var r []string
	for _, c := range cids {
		if u, ok := w.UID[c]; ok {
			r = append(r, string(w.Ent[u].GetPayload()))
		} else {
			r = append(r, "?"+c[len(c)-6:])
		}
	}
	return "[" + strings.Join(r, ",") + "]"
}

// stepFailure reports operation errors/panics of plain appends and joins, which no property permits.
func stepFailure(p *run.Part, check string, op seqx.Op, st *seqx.Step, c seqx.Case) bool {
	if st.Panic != "" {
		p.Violate(check, p.Property+":panic:"+op.K+":"+run.PanicSite(st.Panic), fmt.Sprintf("%s panicked: %s at %s", op, st.PanV, st.Panic), c)
		return true
	}
	if st.Err != nil {
		p.Violate(check, p.Property+":error:"+op.K, fmt.Sprintf("%s returned error: %v", op, st.Err), c)
		return true
	}
	return false
}

// modelAgree runs the lock-step comparison and counts the validated transition.
func modelAgree(p *run.Part, check string, w *seqx.World, op seqx.Op, c seqx.Case) bool {
	if errs := w.CheckModel(); len(errs) > 0 {
		p.Violate(check, p.Property+":model:"+op.K+":"+classify(errs[0]), "after "+seqx.PathString(c.Path)+": "+strings.Join(errs, "; "), c)
		return false
	}
	p.Add(0, 0, 1, 0)
	return true
}

func classify(msg string) string {
	switch {
	case strings.Contains(msg, "entries"):
		return "entries"
	case strings.Contains(msg, "heads"):
		return "heads"
	}
	return "other"
}

// seqReplay is the generic replay for BFS-based checks.
func seqReplay(build func(p *run.Part, tier string) []*seqx.Search) func(p *run.Part, check string, raw []byte) {
	return func(p *run.Part, check string, raw []byte) {
		var c seqx.Case
		if err := jsonUnmarshal(raw, &c); err != nil {
			panic(err)
		}
		for _, s := range build(p, "replay") {
			if s.Cfg.Name == c.Config && s.PrefixID == c.Prefix {
				s.RunPath(c)
				return
			}
		}
		panic("replay: no search for config " + c.Config + c.Prefix)
	}
}

var _ = ipfslog.NewLog
