package seq

import (
	"fmt"

	"verif/engine/run"
	"verif/engine/seqx"
)

// C02 — heads are exactly the entries nothing else in the log points to.
//
// Enumerated: every history of appends and unbounded joins over three replicas up to
// the depth bound, from the empty world and from macro prefixes. Oracle (every replica,
// after every transition): Heads(), RawHeads() and ToSnapshot().Heads, as sets, equal the
// entries of GetEntries() that no entry of GetEntries() names in next; non-empty iff the
// log is non-empty; every head is an entry.

func headsOracle(p *run.Part, check string, w *seqx.World, c seqx.Case) {
	for i, l := range w.Logs {
		es := l.GetEntries().Slice()
		want := unreferenced(es)
		inLog := map[string]bool{}
		for _, e := range es {
			inLog[e.GetHash().String()] = true
		}
		views := map[string][]string{
			"Heads":    sortedStrings(hashesOf(l.Heads().Slice())),
			"RawHeads": sortedStrings(hashesOf(l.RawHeads().Slice())),
		}
		var sh []string
		for _, h := range l.ToSnapshot().Heads {
			sh = append(sh, h.String())
		}
		views["Snapshot.Heads"] = sortedStrings(sh)
		for _, name := range []string{"Heads", "RawHeads", "Snapshot.Heads"} {
			got := views[name]
			for _, h := range got {
				if !inLog[h] {
					p.Violate(check, "C02:head-not-entry:"+name, fmt.Sprintf("after %s: replica %d %s contains %s which is not an entry of the log", seqx.PathString(c.Path), i, name, short(w, []string{h})), c)
				}
			}
			if !eqStrings(got, want) {
				kind := "extra"
				if len(got) < len(want) {
					kind = "missing"
				}
				p.Violate(check, "C02:heads-mismatch:"+name+":"+kind, fmt.Sprintf("after %s: replica %d %s=%s but unreferenced entries are %s", seqx.PathString(c.Path), i, name, short(w, got), short(w, want)), c)
			}
			if (len(es) > 0) != (len(got) > 0) {
				p.Violate(check, "C02:emptiness:"+name, fmt.Sprintf("after %s: replica %d has %d entries and %d heads", seqx.PathString(c.Path), i, len(es), len(got)), c)
			}
		}
	}
}

func forked(w *seqx.World) bool {
	for i, l := range w.Logs {
		if l.RawHeads().Len() >= 2 {
			return true
		}
		for j := range w.Logs {
			if i != j {
				a, b := w.ML[i].Set, w.ML[j].Set
				common, onlyA, onlyB := 0, 0, 0
				for u := range a {
					if b[u] {
						common++
					} else {
						onlyA++
					}
				}
				for u := range b {
					if !a[u] {
						onlyB++
					}
				}
				if common > 0 && onlyA > 0 && onlyB > 0 {
					return true
				}
			}
		}
	}
	return false
}

const ruleForked = "states are distinct canonical keys (per replica: entry set, head set, clock, reverse-index keys); non-trivial = some replica has >=2 heads or two replicas overlap partially"

func c02Searches(p *run.Part, tier string) []*seqx.Search {
	depth, pdepth := 6, 2
	if tier == "thorough" {
		depth, pdepth = 8, 3
	}
	dl := Budget(tier)
	mk := func(cfg *seqx.Config, prefix string, d int) *seqx.Search {
		return &seqx.Search{Part: p, Check: "bfs", Cfg: cfg, Alphabet: Alphabet(3, false), Depth: d, Prefix: Prefixes[prefix], PrefixID: prefix,
			Deadline: dl, Nontrivial: forked,
			OnTransition: func(w *seqx.World, pre *seqx.Pre, op seqx.Op, st *seqx.Step, c seqx.Case) {
				if expectedDenial(w, pre, op, st) {
					st = &seqx.Step{UID: -1} // a refused append or merge: the log must be as before, the oracles below apply
				}
				if stepFailure(p, "bfs", op, st, c) {
					return
				}
				modelAgree(p, "bfs", w, op, c)
				headsOracle(p, "bfs", w, c)
			}}
	}
	return []*seqx.Search{
		mk(CfgDef3, "", depth), mk(CfgShared3, "", depth-1), mk(CfgHash3, "", depth-1),
		mk(CfgDef3, "+chain20", pdepth), mk(CfgDef3, "+fork12", pdepth), mk(CfgDef3, "+tri4", pdepth), mk(CfgClk3, "", depth-1),
		mkPolicy(mk, "denyB/default", depth), mkPolicy(mk, "denyP3/default", depth), mk(CfgFww3, "", depth-1),
		mk2(mk, depth+2), mk(CfgDef3, "+ab-merged", depth-1), mk(CfgDef3, "+abc", depth-1), mk(CfgDef3, "+a-spread", depth-1),
		mkPartial(mk, depth),
	}
}

func init() {
	register(&Check{ID: "C02", Run: func(p *run.Part, tier string) {
		p.Rule = ruleForked
		p.Assume("replicas <= 3, writers <= 3, history depth as stated in extra.searches; appends and unbounded joins only (the statement's scope)")
		runSearches(p, c02Searches(p, tier))
	}, Replay: seqReplay(c02Searches)})
}

// runSearches runs the searches one after another and records their sizes.
func runSearches(p *run.Part, ss []*seqx.Search) {
	var rows []map[string]interface{}
	for _, s := range ss {
		if s.ExhaustPaths == 0 {
			// path-by-path enumeration (no pruning on the state key) as deep as the budget of histories allows
			budget := 12000.0
			if p.Tier == "thorough" {
				budget = 150000.0
			}
			n, d := 1.0, 0
			for n*float64(len(s.Alphabet)) <= budget && d < s.Depth {
				n *= float64(len(s.Alphabet))
				d++
			}
			s.ExhaustPaths = d
		}
		s.Run()
		rows = append(rows, map[string]interface{}{"config": s.Cfg.Name + s.PrefixID, "depth_completed": s.MaxDepth, "depth_bound": s.Depth, "states": s.States, "transitions": s.Transitions, "path_exhaustive_depth": s.ExhaustPaths, "histories_extended_despite_known_state": s.PathsBeyondDedupe})
		if len(s.Frontier) > 0 {
			// written-out sample: the frontier history with the most varied operations
			best, score := s.Frontier[0], -1
			for _, f := range s.Frontier {
				seen := map[string]bool{}
				for _, o := range f {
					seen[o.String()] = true
				}
				if len(seen) > score {
					best, score = f, len(seen)
				}
			}
			p.Sample(6, map[string]string{"config": s.Cfg.Name + s.PrefixID, "history": seqx.PathString(s.Prefix) + " " + seqx.PathString(best)})
		}
	}
	p.SetExtra("searches", rows)
}

// mk2 is the deep two-replica search (alphabet of 4 operations).
func mk2(mk func(cfg *seqx.Config, prefix string, d int) *seqx.Search, depth int) *seqx.Search {
	s := mk(CfgDef2, "", depth)
	s.Alphabet = Alphabet2()
	return s
}

// mkPartial: the two-replica alphabet plus unbounded merges from a partial copy of the other replica (its newest
// one or two entries, as a length-limited load would hold): logs with holes are reachable states.
func mkPartial(mk func(cfg *seqx.Config, prefix string, d int) *seqx.Search, depth int) *seqx.Search {
	s := mk(CfgPart2, "", depth)
	s.Alphabet = append(Alphabet2(), seqx.Op{K: "joinlast", A: 0, B: 1, N: 1}, seqx.Op{K: "joinlast", A: 0, B: 1, N: 2},
		seqx.Op{K: "joinlast", A: 1, B: 0, N: 1}, seqx.Op{K: "joinlast", A: 1, B: 0, N: 2})
	return s
}

// mkSetID: the three-replica alphabet plus identity changes (to another writer's identity, and to the same user's
// second-device identity): SetIdentity touches the clock and reads the heads.
func mkSetID(mk func(cfg *seqx.Config, prefix string, d int) *seqx.Search, depth int) *seqx.Search {
	s := mk(CfgSetID3, "", depth)
	s.Alphabet = append(Alphabet(3, false), seqx.Op{K: "setid", A: 0, B: 1}, seqx.Op{K: "setid", A: 1, B: 5})
	return s
}
