package seq

import (
	"fmt"
	"sort"
	"strings"
	"sync"

	ipfslog "berty.tech/go-ipfs-log"
	"berty.tech/go-ipfs-log/accesscontroller"
	"berty.tech/go-ipfs-log/entry"
	idp "berty.tech/go-ipfs-log/identityprovider"
	"berty.tech/go-ipfs-log/iface"
	"berty.tech/go-ipfs-log/io/pb"

	"verif/engine/run"
	"verif/engine/seqx"
	"verif/engine/world"
)

// C06 — merge admits only verified, authorised entries and is all-or-nothing.
//
// (A) histories with access policies: replica 0 runs a policy (deny writer B / deny payload p3),
//     replica 1 allows everything. A merge whose candidates (source entries the destination
//     lacks) include a denied entry must fail and leave the destination observably unchanged;
//     otherwise it must succeed and equal the model union. A denied append must fail and
//     leave entries and heads unchanged. Every entry Append returns must verify under the
//     log's codec (default, link-key, legacy) and merge into the other replica.
// (B) tampered sources: for every state, every position of the source and every fault kind
//     (signature removed / of another entry, key removed / of another writer, payload altered
//     after signing, foreign log id) the source log is rebuilt with the bad entry and merged.

type denyPolicy struct {
	writerID string
	payload  string
}

func (d *denyPolicy) CanAppend(e accesscontroller.LogEntry, _ idp.Interface, _ accesscontroller.CanAppendAdditionalContext) error {
	if d.writerID != "" && e.GetIdentity() != nil && e.GetIdentity().ID == d.writerID {
		return fmt.Errorf("policy: writer not allowed")
	}
	if d.payload != "" && string(e.GetPayload()) == d.payload {
		return fmt.Errorf("policy: payload not allowed")
	}
	return nil
}

func (d *denyPolicy) denies(w *seqx.World, uid int) bool {
	e := w.Ent[uid]
	return d.CanAppend(e, nil, nil) != nil
}

var c06Policies = map[string]*denyPolicy{}

func policyFor(name string) *denyPolicy {
	world.Init()
	switch name {
	case "denyB":
		return &denyPolicy{writerID: world.IDs[1].ID}
	case "denyP3":
		return &denyPolicy{payload: "p3"}
	}
	return &denyPolicy{}
}

func c06Config(name, policy, codec string) *seqx.Config {
	cfg := &seqx.Config{Name: name, Writers: []int{0, 1}, PC: 4}
	if policy == "allow-same-writer" {
		// both replicas sign as the same identity: the entries being merged carry the destination's own key
		cfg.Writers = []int{0, 0}
		policy = "allow"
	}
	cfg.AC = func(r int) accesscontroller.Interface {
		if r == 0 {
			return policyFor(policy)
		}
		return &denyPolicy{}
	}
	switch codec {
	case "linkkey":
		cfg.IO = func() iface.IO { return linkKeyIO("K1") }
	case "pb":
		cfg.IO = func() iface.IO { io, _ := pb.IO(&entry.Entry{}, &entry.LamportClock{}); return io }
	}
	return cfg
}

var c06Cfgs = []struct{ name, policy, codec string }{
	{"allow/default", "allow", "default"}, {"denyB/default", "denyB", "default"}, {"denyP3/default", "denyP3", "default"},
	{"allow/linkkey", "allow", "linkkey"}, {"allow/pb", "allow", "pb"}, {"allow-same-writer/default", "allow-same-writer", "default"},
}

func init() {
	for _, c := range c06Cfgs {
		cfg := c06Config(c.name, c.policy, c.codec)
		Configs[c.name] = cfg
	}
}

func policyOf(cfgName string, replica int) *denyPolicy {
	for _, c := range c06Cfgs {
		if c.name == cfgName && replica == 0 && !strings.HasPrefix(c.policy, "allow") {
			return policyFor(c.policy)
		}
	}
	return &denyPolicy{}
}

func unchanged(w *seqx.World, pre *seqx.Pre, r int) string {
	l := w.Logs[r]
	if !eqStrings(hashesOf(l.Values().Slice()), pre.Values[r]) {
		return "Values() changed"
	}
	if !eqStrings(hashesOf(l.Heads().Slice()), pre.Heads[r]) {
		return "Heads() changed"
	}
	if l.Len() != pre.Len[r] {
		return "Len() changed"
	}
	return ""
}

func c06Transition(p *run.Part) func(w *seqx.World, pre *seqx.Pre, op seqx.Op, st *seqx.Step, c seqx.Case) {
	return func(w *seqx.World, pre *seqx.Pre, op seqx.Op, st *seqx.Step, c seqx.Case) {
		path := seqx.PathString(c.Path)
		if st.Panic != "" {
			p.Violate("policy", "C06:panic:"+op.K+":"+run.PanicSite(st.Panic), fmt.Sprintf("after %s: %s panicked: %s at %s", path, op, st.PanV, st.Panic), c)
			return
		}
		pol := policyOf(w.Cfg.Name, op.A)
		switch op.K {
		case "app":
			wantDenied := pol.writerID == world.IDs[w.WriterOf[op.A]].ID || (pol.payload != "" && pol.payload == fmt.Sprintf("p%d", w.NApp))
			if wantDenied {
				if st.Err == nil {
					p.Violate("policy", "C06:denied-append-accepted", fmt.Sprintf("after %s: the controller denies this append but it succeeded", path), c)
					return
				}
				if d := unchanged(w, pre, op.A); d != "" {
					p.Violate("policy", "C06:denied-append-changed-log", fmt.Sprintf("after %s: the append was denied but %s", path, d), c)
					return
				}
				p.Add(0, 0, 1, 0)
				p.Nontriv("denied-append:" + path)
				return
			}
			if st.Err != nil {
				p.Violate("policy", "C06:append-failed", fmt.Sprintf("after %s: append failed: %v", path, st.Err), c)
				return
			}
			// every entry Append returns verifies under the log's codec
			if err := st.Entry.Verify(world.IDs[0].Provider, w.Logs[op.A].IO()); err != nil {
				p.Violate("policy", "C06:appended-entry-does-not-verify:"+w.Cfg.Name, fmt.Sprintf("after %s: the entry returned by Append does not verify under the log's codec: %v", path, err), c)
				return
			}
			modelAgree(p, "policy", w, op, c)
		case "join":
			// candidates: entries of the source the destination lacked before the call
			preSet := map[string]bool{}
			for _, h := range pre.Values[op.A] {
				preSet[h] = true
			}
			denied := false
			ncand := 0
			for u := range w.ML[op.B].Set {
				if !preSet[w.Ent[u].GetHash().String()] {
					ncand++
					if pol.denies(w, u) {
						denied = true
					}
				}
			}
			if denied {
				if st.Err == nil {
					p.Violate("policy", "C06:denied-entry-merged", fmt.Sprintf("after %s: a candidate entry is denied by the destination's controller but the merge succeeded", path), c)
					return
				}
				if d := unchanged(w, pre, op.A); d != "" {
					p.Violate("policy", "C06:failed-merge-changed-log", fmt.Sprintf("after %s: the merge failed but %s", path, d), c)
					return
				}
				p.Add(0, 0, 1, 0)
				p.Nontriv("denied-merge:" + path)
				return
			}
			if st.Err != nil {
				p.Violate("policy", "C06:valid-merge-rejected:"+w.Cfg.Name, fmt.Sprintf("after %s: all %d candidates are signed and allowed but the merge failed: %v", path, ncand, st.Err), c)
				return
			}
			modelAgree(p, "policy", w, op, c)
		}
	}
}

// ---- (B) tampered sources ----

var c06Faults = []string{"sig-removed", "sig-of-other", "key-removed", "key-of-other-writer", "key-of-destination", "payload-altered", "foreign-id", "none"}

type c06Case struct {
	Config string    `json:"config"`
	Path   []seqx.Op `json:"path"`
	Dst    int       `json:"dst"`
	Src    int       `json:"src"`
	Pos    int       `json:"pos"`
	Fault  string    `json:"fault"`
}

func tamperOne(p *run.Part, cfg *seqx.Config, cc c06Case) {
	w := seqx.Replay(cfg, cc.Path)
	src, dst := w.Logs[cc.Src], w.Logs[cc.Dst]
	vals := src.Values().Slice()
	if cc.Pos >= len(vals) {
		return
	}
	path := seqx.PathString(cc.Path)
	es := entry.NewOrderedMap()
	var heads []iface.IPFSLogEntry
	headSet := map[string]bool{}
	for _, h := range src.Heads().Slice() {
		headSet[h.GetHash().String()] = true
	}
	var bad iface.IPFSLogEntry
	for i, e := range vals {
		c := e.Copy()
		c.SetHash(e.GetHash())
		if i == cc.Pos {
			switch cc.Fault {
			case "sig-removed":
				c.SetSig(nil)
			case "sig-of-other":
				o := vals[(i+1)%len(vals)]
				if len(vals) == 1 {
					// a valid signature by the same key over different content
					x, err := entrySpec{Payload: []byte("other"), Time: 99, Writer: w.WriterOf[cc.Src], LogID: "X", Next: []int{}, Refs: []int{}}.build(w.St, src.IO())
					if err != nil {
						panic(err)
					}
					o = x
				}
				c.SetSig(o.GetSig())
			case "key-removed":
				c.SetKey(nil)
			case "key-of-other-writer":
				c.SetKey(world.IDs[2].PublicKey)
			case "key-of-destination":
				if string(e.GetKey()) == string(world.IDs[w.WriterOf[cc.Dst]].PublicKey) {
					c.SetSig(nil) // already the destination's key: make it bad in another way
				}
				c.SetKey(world.IDs[w.WriterOf[cc.Dst]].PublicKey)
			case "payload-altered":
				c.SetPayload(append(append([]byte{}, e.GetPayload()...), '!'))
			case "foreign-id":
				c.SetLogID("Y")
			}
			bad = c
		}
		es.Set(c.GetHash().String(), c)
		if headSet[c.GetHash().String()] {
			heads = append(heads, c)
		}
	}
	tsrc, err := ipfslog.NewLog(w.St, world.IDs[w.WriterOf[cc.Src]], &ipfslog.LogOptions{ID: "X", Entries: es, Heads: heads, IO: src.IO()})
	if err != nil {
		panic(err)
	}
	pre := seqx.SnapPre(w, false)
	_, inDst := dst.Get(bad.GetHash())
	var jerr error
	pv, stack := run.Safe(func() { _, jerr = dst.Join(tsrc, -1) })
	p.Add(0, 1, 0, 1)
	desc := fmt.Sprintf("after %s: merging into replica %d a copy of replica %d whose entry #%d (%s) has fault %q", path, cc.Dst, cc.Src, cc.Pos, string(vals[cc.Pos].GetPayload()), cc.Fault)
	if pv != nil {
		p.Violate("tamper", "C06:merge-panic:"+cc.Fault+":"+run.PanicSite(stack), fmt.Sprintf("%s panicked: %v at %s", desc, pv, stack), cc)
		return
	}
	isCandidate := !inDst
	union := map[string]bool{}
	for _, h := range pre.Values[cc.Dst] {
		union[h] = true
	}
	for _, e := range vals {
		union[e.GetHash().String()] = true
	}
	got := map[string]bool{}
	for _, e := range dst.GetEntries().Slice() {
		got[e.GetHash().String()] = true
	}
	switch {
	case cc.Fault == "none" || !isCandidate:
		if jerr != nil {
			p.Violate("tamper", "C06:valid-merge-rejected:"+cfg.Name, fmt.Sprintf("%s (not a candidate: %v) failed: %v", desc, !isCandidate, jerr), cc)
			return
		}
		if len(got) != len(union) {
			p.Violate("tamper", "C06:merge-not-union", fmt.Sprintf("%s: result has %d entries, union has %d", desc, len(got), len(union)), cc)
			return
		}
	case cc.Fault == "foreign-id":
		if jerr != nil {
			p.Violate("tamper", "C06:foreign-id-not-skipped", fmt.Sprintf("%s: an entry of another log id must be skipped silently, got %v", desc, jerr), cc)
			return
		}
		if got[bad.GetHash().String()] {
			p.Violate("tamper", "C06:foreign-id-entry-added", desc+": the entry with a foreign log id was added", cc)
			return
		}
		for _, h := range dst.Heads().Slice() {
			if h.GetHash().Equals(bad.GetHash()) {
				p.Violate("tamper", "C06:foreign-id-entry-exposed-as-head", desc+": the entry with a foreign log id became a head of the destination", cc)
				return
			}
		}
		for h := range got {
			if !union[h] {
				p.Violate("tamper", "C06:merge-invented-entry", desc+": the result holds an entry that neither log had", cc)
				return
			}
		}
	default:
		if jerr == nil {
			p.Violate("tamper", "C06:bad-entry-merged:"+cc.Fault, desc+": the merge succeeded", cc)
			return
		}
		if d := unchanged(w, pre, cc.Dst); d != "" || w.Key() != pre.Key {
			p.Violate("tamper", "C06:failed-merge-changed-log", fmt.Sprintf("%s: the merge failed (%v) but the destination changed (%s)", desc, jerr, d), cc)
			return
		}
		p.Nontriv(fmt.Sprint(cc.Fault, cc.Pos, pre.Key))
	}
	p.Add(0, 0, 1, 0)
}

func c06Probe(p *run.Part, cfg *seqx.Config, seen *sync.Map) func(w *seqx.World, c seqx.Case) {
	return func(w *seqx.World, c seqx.Case) {
		for _, pr := range [][2]int{{0, 1}, {1, 0}} {
			dst, src := pr[0], pr[1]
			n := len(w.ML[src].Set)
			if n == 0 || n > 5 {
				continue
			}
			key := cfg.Name + fmt.Sprint(w.ML[dst].UIDs(), w.ML[src].UIDs(), dst)
			if _, dup := seen.LoadOrStore(key, true); dup {
				continue
			}
			for pos := 0; pos < n; pos++ {
				for _, f := range c06Faults {
					cc := c06Case{Config: cfg.Name, Path: c.Path, Dst: dst, Src: src, Pos: pos, Fault: f}
					tamperOne(p, cfg, cc)
				}
			}
		}
	}
}

func c06Searches(p *run.Part, tier string) []*seqx.Search {
	depth := 4
	if tier == "thorough" {
		depth = 6
	}
	dl := Budget(tier)
	seen := &sync.Map{}
	alpha := Alphabet(2, false)
	var ss []*seqx.Search
	for _, c := range c06Cfgs {
		cfg := Configs[c.name]
		d := depth
		if c.codec != "default" || c.policy != "allow" {
			d = depth
		}
		s := &seqx.Search{Part: p, Check: "policy", Cfg: cfg, Alphabet: alpha, Depth: d, Deadline: dl, OnTransition: c06Transition(p)}
		if strings.HasPrefix(c.policy, "allow") {
			s.OnState = c06Probe(p, cfg, seen)
		}
		ss = append(ss, s)
	}
	return ss
}

func init() {
	register(&Check{ID: "C06", Run: func(p *run.Part, tier string) {
		p.Rule = "(A) transitions of the 2-replica BFS under three access policies and three codecs; (B) tampered merges (state, dst, src, position, fault kind) de-duplicated on the pair of replica states; non-trivial = distinct denied appends/merges and distinct rejected tampered merges"
		p.Assume("2 replicas, depth as in extra.searches, sources of <= 5 entries for tampering; policies: deny one writer, deny one payload; codecs: default, link-key, legacy pb; the concurrent verification workers are explored separately by the scheduler engine")
		runSearches(p, c06Searches(p, tier))
		p.Sample(8, c06Case{Config: "allow/default", Path: Shapes["fork"], Dst: 1, Src: 0, Pos: 2, Fault: "payload-altered"})
	}, Replay: func(p *run.Part, check string, raw []byte) {
		if check == "tamper" {
			var cc c06Case
			if err := jsonUnmarshal(raw, &cc); err != nil {
				panic(err)
			}
			tamperOne(p, Configs[cc.Config], cc)
			return
		}
		seqReplay(c06Searches)(p, check, raw)
	}})
}

var _ = sort.Strings
