package seq

import (
	"bytes"
	"fmt"
	"github.com/ipfs/go-cid"
	"github.com/libp2p/go-libp2p/core/crypto"
	"sort"
	"strings"
	"sync"

	ipfslog "berty.tech/go-ipfs-log"
	"berty.tech/go-ipfs-log/accesscontroller"
	"berty.tech/go-ipfs-log/entry"
	idp "berty.tech/go-ipfs-log/identityprovider"
	"berty.tech/go-ipfs-log/iface"
	"berty.tech/go-ipfs-log/io/pb"

	"verif/engine/run"
	"verif/engine/seqx"
	"verif/engine/world"
)

// C06 — merge admits only verified, authorised entries and is all-or-nothing.
//
// (A) histories with access policies: replica 0 runs a policy (deny writer B / deny payload p3),
//     replica 1 allows everything. A merge whose candidates (source entries the destination
//     lacks) include a denied entry must fail and leave the destination observably unchanged;
//     otherwise it must succeed and equal the model union. A denied append must fail and
//     leave entries and heads unchanged. Every entry Append returns must verify under the
//     log's codec (default, link-key, legacy) and merge into the other replica.
// (B) tampered sources: for every state, every position of the source and every fault kind
//     (signature removed / of another entry, key removed / of another writer, payload altered
//     after signing, foreign log id) the source log is rebuilt with the bad entry and merged.

type denyPolicy struct {
	writerID string
	payload  string
}

func (d *denyPolicy) CanAppend(e accesscontroller.LogEntry, _ idp.Interface, _ accesscontroller.CanAppendAdditionalContext) error {
	if d.writerID != "" && e.GetIdentity() != nil && e.GetIdentity().ID == d.writerID {
		return fmt.Errorf("policy: writer not allowed")
	}
	if d.payload != "" && string(e.GetPayload()) == d.payload {
		return fmt.Errorf("policy: payload not allowed")
	}
	return nil
}

func (d *denyPolicy) denies(w *seqx.World, uid int) bool {
	e := w.Ent[uid]
	return d.CanAppend(e, nil, nil) != nil
}

var c06Policies = map[string]*denyPolicy{}

func policyFor(name string) *denyPolicy {
	world.Init()
	switch name {
	case "denyB":
		return &denyPolicy{writerID: world.IDs[1].ID}
	case "denyP3":
		return &denyPolicy{payload: "p3"}
	}
	return &denyPolicy{}
}

func c06Config(name, policy, codec string) *seqx.Config {
	cfg := &seqx.Config{Name: name, Writers: []int{0, 1}, PC: 4}
	if policy == "allow-same-writer" {
		// both replicas sign as the same identity: the entries being merged carry the destination's own key
		cfg.Writers = []int{0, 0}
		policy = "allow"
	}
	cfg.AC = func(r int) accesscontroller.Interface {
		if r == 0 {
			return policyFor(policy)
		}
		return &denyPolicy{}
	}
	switch codec {
	case "linkkey":
		cfg.IO = func() iface.IO { return linkKeyIO("K1") }
	case "pb":
		cfg.IO = func() iface.IO { io, _ := pb.IO(&entry.Entry{}, &entry.LamportClock{}); return io }
	}
	return cfg
}

var c06Cfgs = []struct{ name, policy, codec string }{
	{"allow/default", "allow", "default"}, {"denyB/default", "denyB", "default"}, {"denyP3/default", "denyP3", "default"},
	{"allow/linkkey", "allow", "linkkey"}, {"allow/pb", "allow", "pb"}, {"allow-same-writer/default", "allow-same-writer", "default"},
	// logs configured with a concurrency of 1 and 2: whatever Join does "per batch" happens after every entry / every two
	{"allow/default/conc1", "allow", "default"}, {"allow/default/conc2", "allow", "default"},
}

func init() {
	for _, c := range c06Cfgs {
		cfg := c06Config(c.name, c.policy, c.codec)
		switch {
		case strings.HasSuffix(c.name, "/conc1"):
			cfg.Conc = 1
		case strings.HasSuffix(c.name, "/conc2"):
			cfg.Conc = 2
		}
		Configs[c.name] = cfg
	}
}

func policyOf(cfgName string, replica int) *denyPolicy {
	if cfg := Configs[cfgName]; cfg != nil && cfg.AC != nil {
		if pol, ok := cfg.AC(replica).(*denyPolicy); ok {
			return pol
		}
	}
	return &denyPolicy{}
}

func unchanged(w *seqx.World, pre *seqx.Pre, r int) string {
	l := w.Logs[r]
	if !eqStrings(hashesOf(l.Values().Slice()), pre.Values[r]) {
		return "Values() changed"
	}
	if !eqStrings(hashesOf(l.Heads().Slice()), pre.Heads[r]) {
		return "Heads() changed"
	}
	if l.Len() != pre.Len[r] {
		return "Len() changed"
	}
	// the entry index itself (Get/Has/GetEntries see it even when Values() does not reach an entry)
	var held []string
	for _, e := range pre.Entries[r] {
		held = append(held, e.GetHash().String())
	}
	if !eqStrings(sortedStrings(hashesOf(l.GetEntries().Slice())), sortedStrings(held)) {
		return "GetEntries() changed"
	}
	return ""
}

func c06Transition(p *run.Part) func(w *seqx.World, pre *seqx.Pre, op seqx.Op, st *seqx.Step, c seqx.Case) {
	return func(w *seqx.World, pre *seqx.Pre, op seqx.Op, st *seqx.Step, c seqx.Case) {
		path := seqx.PathString(c.Path)
		if st.Panic != "" {
			p.Violate("policy", "C06:panic:"+op.K+":"+run.PanicSite(st.Panic), fmt.Sprintf("after %s: %s panicked: %s at %s", path, op, st.PanV, st.Panic), c)
			return
		}
		pol := policyOf(w.Cfg.Name, op.A)
		switch op.K {
		case "app":
			wantDenied := pol.writerID == world.IDs[w.WriterOf[op.A]].ID || (pol.payload != "" && pol.payload == fmt.Sprintf("p%d", w.NApp))
			if wantDenied {
				if st.Err == nil {
					p.Violate("policy", "C06:denied-append-accepted", fmt.Sprintf("after %s: the controller denies this append but it succeeded", path), c)
					return
				}
				if d := unchanged(w, pre, op.A); d != "" {
					p.Violate("policy", "C06:denied-append-changed-log", fmt.Sprintf("after %s: the append was denied but %s", path, d), c)
					return
				}
				p.Add(0, 0, 1, 0)
				p.Nontriv("denied-append:" + path)
				return
			}
			if st.Err != nil {
				p.Violate("policy", "C06:append-failed", fmt.Sprintf("after %s: append failed: %v", path, st.Err), c)
				return
			}
			// every entry Append returns verifies under the log's codec
			if err := st.Entry.Verify(world.IDs[0].Provider, w.Logs[op.A].IO()); err != nil {
				p.Violate("policy", "C06:appended-entry-does-not-verify:"+w.Cfg.Name, fmt.Sprintf("after %s: the entry returned by Append does not verify under the log's codec: %v", path, err), c)
				return
			}
			modelAgree(p, "policy", w, op, c)
		case "join":
			// candidates: entries of the source the destination lacked before the call
			preSet := map[string]bool{}
			for _, h := range pre.Values[op.A] {
				preSet[h] = true
			}
			denied := false
			ncand := 0
			for u := range w.ML[op.B].Set {
				if !preSet[w.Ent[u].GetHash().String()] {
					ncand++
					if pol.denies(w, u) {
						denied = true
					}
				}
			}
			if denied {
				if st.Err == nil {
					p.Violate("policy", "C06:denied-entry-merged", fmt.Sprintf("after %s: a candidate entry is denied by the destination's controller but the merge succeeded", path), c)
					return
				}
				if d := unchanged(w, pre, op.A); d != "" {
					p.Violate("policy", "C06:failed-merge-changed-log", fmt.Sprintf("after %s: the merge failed but %s", path, d), c)
					return
				}
				twin := seqx.Replay(w.Cfg, c.Path[:len(c.Path)-1])
				followUps(p, "policy", w, twin, op.A, "after "+path+" (merge denied)", c)
				p.Add(0, 0, 1, 0)
				p.Nontriv("denied-merge:" + path)
				return
			}
			if st.Err != nil {
				p.Violate("policy", "C06:valid-merge-rejected:"+w.Cfg.Name, fmt.Sprintf("after %s: all %d candidates are signed and allowed but the merge failed: %v", path, ncand, st.Err), c)
				return
			}
			modelAgree(p, "policy", w, op, c)
		}
	}
}

// followUps: after a merge that failed, the destination must also BEHAVE as if the merge had never been
// attempted. The same follow-up operations are applied to the world in which the merge failed and to
// a twin world replayed without it; their observables must agree (differential oracle, no expected values).
func followUps(p *run.Part, check string, failed *seqx.World, twin *seqx.World, dst int, desc string, c interface{}) {
	ops := []seqx.Op{{K: "joinempty", A: dst}, {K: "join", A: dst, B: 1 - dst}, {K: "app", A: dst}, {K: "joinempty", A: dst}}
	for i, op := range ops {
		if op.K == "join" && (op.B < 0 || op.B >= len(failed.Logs)) {
			continue
		}
		s1, s2 := failed.Apply(op), twin.Apply(op)
		if (s1.Err == nil) != (s2.Err == nil) || s1.Panic != s2.Panic {
			p.Violate(check, "C06:failed-merge-changes-later-behaviour:"+op.K, fmt.Sprintf("%s; afterwards %s gives error %v / panic %q, without the failed merge %v / %q", desc, op, s1.Err, s1.PanV, s2.Err, s2.PanV), c)
			return
		}
		l1, l2 := failed.Logs[dst], twin.Logs[dst]
		v1, v2 := seqx.Payloads(l1.Values().Slice()), seqx.Payloads(l2.Values().Slice())
		h1, h2 := seqx.Payloads(l1.Heads().Slice()), seqx.Payloads(l2.Heads().Slice())
		if fmt.Sprint(v1) != fmt.Sprint(v2) || fmt.Sprint(h1) != fmt.Sprint(h2) || l1.Len() != l2.Len() {
			p.Violate(check, "C06:failed-merge-changes-later-behaviour:"+op.K, fmt.Sprintf("%s; after follow-up #%d %s the log shows values %v heads %v, without the failed merge values %v heads %v", desc, i, op, v1, h1, v2, h2), c)
			return
		}
	}
}

// ---- (B) tampered sources ----

var c06Faults = []string{"sig-removed", "sig-of-other", "key-removed", "key-of-other-writer", "key-of-destination", "payload-altered", "payload-altered-lenient-provider", "foreign-id", "head-without-its-entry", "none"}

type c06Case struct {
	Config string    `json:"config"`
	Path   []seqx.Op `json:"path"`
	Dst    int       `json:"dst"`
	Src    int       `json:"src"`
	Pos    int       `json:"pos"`
	Fault  string    `json:"fault"`
	// Trunc > 0: the destination is first truncated to its newest Trunc entries (size-bounded merge of an
	// empty log) and the source is a tampered copy of the destination's OWN full history, so that the
	// candidates are the entries the truncated replica lacks
	Trunc int `json:"trunc,omitempty"`
	// Size, when set, is size+1 of a size-bounded merge (0 = unbounded): validation must not depend on the bound
	Size int `json:"size,omitempty"`
}

func l0Clock(w *seqx.World, r int) int { return w.Logs[r].Clock.GetTime() }

func truncate(w *seqx.World, r, n int) {
	e := world.NewLog(w.St, w.WriterOf[r], &ipfslog.LogOptions{ID: "X"})
	if _, err := w.Logs[r].Join(e, n); err != nil {
		panic(err)
	}
}

func tamperOne(p *run.Part, cfg *seqx.Config, cc c06Case) {
	w := seqx.Replay(cfg, cc.Path)
	src, dst := w.Logs[cc.Src], w.Logs[cc.Dst]
	vals := src.Values().Slice()
	if cc.Trunc > 0 {
		src = dst
		vals = dst.Values().Slice()
	}
	if cc.Pos >= len(vals) {
		return
	}
	path := seqx.PathString(cc.Path)
	es := entry.NewOrderedMap()
	var heads []iface.IPFSLogEntry
	headSet := map[string]bool{}
	for _, h := range src.Heads().Slice() {
		headSet[h.GetHash().String()] = true
	}
	if cc.Trunc > 0 {
		// the attacker's log is the older part of the history, ending in the (possibly forged) entry at Pos
		if cc.Pos >= len(vals) {
			return
		}
		vals = vals[:cc.Pos+1]
		ref := map[string]bool{}
		for _, e := range vals {
			for _, n := range e.GetNext() {
				ref[n.String()] = true
			}
		}
		headSet = map[string]bool{}
		for _, e := range vals {
			if !ref[e.GetHash().String()] {
				headSet[e.GetHash().String()] = true
			}
		}
	}
	var bad iface.IPFSLogEntry
	for i, e := range vals {
		c := e.Copy()
		c.SetHash(e.GetHash())
		if i == cc.Pos {
			switch cc.Fault {
			case "sig-removed":
				c.SetSig(nil)
			case "sig-of-other":
				o := vals[(i+1)%len(vals)]
				if len(vals) == 1 {
					// a valid signature by the same key over different content
					x, err := entrySpec{Payload: []byte("other"), Time: 99, Writer: w.WriterOf[cc.Src], LogID: "X", Next: []int{}, Refs: []int{}}.build(w.St, src.IO())
					if err != nil {
						panic(err)
					}
					o = x
				}
				c.SetSig(o.GetSig())
			case "key-removed":
				c.SetKey(nil)
			case "key-of-other-writer":
				c.SetKey(world.IDs[2].PublicKey)
			case "key-of-destination":
				if string(e.GetKey()) == string(world.IDs[w.WriterOf[cc.Dst]].PublicKey) {
					c.SetSig(nil) // already the destination's key: make it bad in another way
				}
				c.SetKey(world.IDs[w.WriterOf[cc.Dst]].PublicKey)
			case "payload-altered":
				c.SetPayload(append(append([]byte{}, e.GetPayload()...), '!'))
			case "payload-altered-lenient-provider":
				// ... and the forged entry brings its own means of verification along: an identity object whose provider
				// accepts every signature. What verifies a candidate is the merging log's business, never the candidate's.
				c.SetPayload(append(append([]byte{}, e.GetPayload()...), '!'))
				if id := e.GetIdentity(); id != nil {
					c.SetIdentity(&idp.Identity{ID: id.ID, PublicKey: id.PublicKey, Signatures: id.Signatures, Type: id.Type, Provider: lenientProvider{id.Provider}})
				}
			case "foreign-id":
				c.SetLogID("Y")
			case "head-without-its-entry":
				// an inconsistent source: it names this entry as a head but does not hold it
				if !headSet[c.GetHash().String()] {
					return
				}
				bad = c
				heads = append(heads, c)
				continue
			}
			bad = c
		}
		es.Set(c.GetHash().String(), c)
		if headSet[c.GetHash().String()] {
			heads = append(heads, c)
		}
	}
	tsrc, err := ipfslog.NewLog(w.St, world.IDs[w.WriterOf[cc.Src]], &ipfslog.LogOptions{ID: "X", Entries: es, Heads: heads, IO: src.IO()})
	if err != nil {
		panic(err)
	}
	if cc.Trunc > 0 {
		truncate(w, cc.Dst, cc.Trunc)
	}
	pre := seqx.SnapPre(w, false)
	// what every entry really is (as signed and stored): the destination's own copies and the source's originals
	genuine := map[string]string{}
	for _, e := range dst.GetEntries().Slice() {
		genuine[e.GetHash().String()] = seqx.DumpEntry(e)
	}
	for _, e := range src.Values().Slice() {
		if _, ok := genuine[e.GetHash().String()]; !ok {
			genuine[e.GetHash().String()] = seqx.DumpEntry(e)
		}
	}
	_, inDst := dst.Get(bad.GetHash())
	var jerr error
	pv, stack := run.Safe(func() { _, jerr = dst.Join(tsrc, cc.Size-1) })
	p.Add(0, 1, 0, 1)
	desc := fmt.Sprintf("after %s: merging into replica %d a copy of replica %d whose entry #%d (%s) has fault %q", path, cc.Dst, cc.Src, cc.Pos, string(vals[cc.Pos].GetPayload()), cc.Fault)
	if cc.Size > 0 {
		desc += fmt.Sprintf(" (size-bounded merge, size=%d)", cc.Size-1)
		// with a size bound only the rejection is judged here (what a successful bounded merge keeps is C16's subject)
		if pv == nil && cc.Fault != "none" && cc.Fault != "foreign-id" && !inDst {
			if jerr == nil {
				p.Violate("tamper", "C06:bad-entry-merged:"+cc.Fault+":size-bounded", desc+": the merge succeeded", cc)
				return
			}
			if d := unchanged(w, pre, cc.Dst); d != "" {
				p.Violate("tamper", "C06:failed-merge-changed-log", fmt.Sprintf("%s: the merge failed (%v) but the destination changed (%s)", desc, jerr, d), cc)
				return
			}
			p.Add(0, 0, 1, 0)
			return
		}
		if pv == nil {
			return
		}
	}
	if pv != nil {
		p.Violate("tamper", "C06:merge-panic:"+cc.Fault+":"+run.PanicSite(stack), fmt.Sprintf("%s panicked: %v at %s", desc, pv, stack), cc)
		return
	}
	// Whatever the merge answered and whatever the source looked like: every head of the destination is one of its entries.
	if pv == nil {
		for _, h := range dst.Heads().Slice() {
			if _, ok := dst.Get(h.GetHash()); !ok {
				p.Violate("tamper", "C06:head-not-an-entry:"+cc.Fault, fmt.Sprintf("%s: afterwards the destination has a head it does not hold (merge error: %v)", desc, jerr), cc)
				return
			}
		}
	}
	if cc.Fault == "head-without-its-entry" {
		// nothing else is promised about a source that is not a log
		p.Add(0, 0, 1, 0)
		return
	}
	// Whatever the merge answered: nothing the destination now shows (Values, Heads, Get) may differ from the
	// genuine, signed entry of that hash. Content that was never verified must not become visible.
	if pv == nil && cc.Fault != "none" && cc.Fault != "foreign-id" {
		shown := append(append([]iface.IPFSLogEntry{}, dst.Values().Slice()...), dst.Heads().Slice()...)
		for _, e := range shown {
			if g, ok := genuine[e.GetHash().String()]; ok && seqx.DumpEntry(e) != g {
				p.Violate("tamper", "C06:unverified-content-exposed:"+cc.Fault, fmt.Sprintf("%s: the destination now shows, under the hash of %s, content that differs from the signed entry (merge error: %v):\n  shown   %s\n  genuine %s", desc, string(vals[cc.Pos].GetPayload()), jerr, seqx.DumpEntry(e), g), cc)
				return
			}
		}
	}
	isCandidate := !inDst
	union := map[string]bool{}
	for _, h := range pre.Values[cc.Dst] {
		union[h] = true
	}
	for _, e := range vals {
		union[e.GetHash().String()] = true
	}
	got := map[string]bool{}
	for _, e := range dst.GetEntries().Slice() {
		got[e.GetHash().String()] = true
	}
	switch {
	case cc.Trunc > 0 && cc.Fault != "none" && isCandidate && jerr == nil:
		// a truncated destination need not take back what it dropped, but it must never admit the forged entry
		if got[bad.GetHash().String()] {
			p.Violate("tamper", "C06:bad-entry-merged:"+cc.Fault, desc+" (destination truncated to its newest "+fmt.Sprint(cc.Trunc)+" entries): the forged entry was admitted", cc)
			return
		}
	case cc.Trunc > 0 && jerr == nil:
		for h := range got {
			if !union[h] {
				p.Violate("tamper", "C06:merge-invented-entry", desc+": the result holds an entry that neither log had", cc)
				return
			}
		}
	case cc.Fault == "none" || !isCandidate:
		if jerr != nil {
			p.Violate("tamper", "C06:valid-merge-rejected:"+cfg.Name, fmt.Sprintf("%s (not a candidate: %v) failed: %v", desc, !isCandidate, jerr), cc)
			return
		}
		if len(got) != len(union) {
			p.Violate("tamper", "C06:merge-not-union", fmt.Sprintf("%s: result has %d entries, union has %d", desc, len(got), len(union)), cc)
			return
		}
	case cc.Fault == "foreign-id":
		if jerr != nil {
			p.Violate("tamper", "C06:foreign-id-not-skipped", fmt.Sprintf("%s: an entry of another log id must be skipped silently, got %v", desc, jerr), cc)
			return
		}
		if got[bad.GetHash().String()] {
			p.Violate("tamper", "C06:foreign-id-entry-added", desc+": the entry with a foreign log id was added", cc)
			return
		}
		for _, h := range dst.Heads().Slice() {
			if h.GetHash().Equals(bad.GetHash()) {
				p.Violate("tamper", "C06:foreign-id-entry-exposed-as-head", desc+": the entry with a foreign log id became a head of the destination", cc)
				return
			}
		}
		for h := range got {
			if !union[h] {
				p.Violate("tamper", "C06:merge-invented-entry", desc+": the result holds an entry that neither log had", cc)
				return
			}
		}
	default:
		if jerr == nil {
			p.Violate("tamper", "C06:bad-entry-merged:"+cc.Fault, desc+": the merge succeeded", cc)
			return
		}
		if d := unchanged(w, pre, cc.Dst); d != "" || l0Clock(w, cc.Dst) != pre.Clock[cc.Dst] {
			p.Violate("tamper", "C06:failed-merge-changed-log", fmt.Sprintf("%s: the merge failed (%v) but the destination changed (%s)", desc, jerr, d), cc)
			return
		}
		twin := seqx.Replay(cfg, cc.Path)
		if cc.Trunc > 0 {
			truncate(twin, cc.Dst, cc.Trunc)
		}
		followUps(p, "tamper", w, twin, cc.Dst, desc+" (rejected)", cc)
		p.Nontriv(fmt.Sprint(cc.Fault, cc.Pos, pre.Key))
	}
	p.Add(0, 0, 1, 0)
}

func c06Probe(p *run.Part, cfg *seqx.Config, seen *sync.Map) func(w *seqx.World, c seqx.Case) {
	return func(w *seqx.World, c seqx.Case) {
		for _, pr := range [][2]int{{0, 1}, {1, 0}} {
			dst, src := pr[0], pr[1]
			n := len(w.ML[src].Set)
			if n == 0 || n > 5 {
				continue
			}
			// replica states are identified by their head hashes (a Merkle DAG: equal heads, equal history); model
			// uids are per-world numbers and must not be used across worlds
			key := cfg.Name + fmt.Sprint(hashesOf(w.Logs[dst].Heads().Slice()), hashesOf(w.Logs[src].Heads().Slice()), dst)
			if _, dup := seen.LoadOrStore(key, true); dup {
				continue
			}
			for pos := 0; pos < n; pos++ {
				for _, f := range c06Faults {
					cc := c06Case{Config: cfg.Name, Path: c.Path, Dst: dst, Src: src, Pos: pos, Fault: f}
					tamperOne(p, cfg, cc)
				}
				for _, f := range []string{"sig-removed", "payload-altered"} {
					for size := 0; size <= n; size++ {
						tamperOne(p, cfg, c06Case{Config: cfg.Name, Path: c.Path, Dst: dst, Src: src, Pos: pos, Fault: f, Size: size + 1})
					}
				}
			}
			// truncated destination: the tampered source is the destination's own full history
			nd := len(w.ML[dst].Set)
			tkey := cfg.Name + "trunc" + fmt.Sprint(hashesOf(w.Logs[dst].Heads().Slice()), dst)
			if _, dup := seen.LoadOrStore(tkey, true); !dup && nd >= 2 && nd <= 5 {
				for k := 1; k < nd; k++ {
					for pos := 0; pos < nd; pos++ {
						for _, f := range []string{"sig-removed", "payload-altered", "key-removed", "none"} {
							tamperOne(p, cfg, c06Case{Config: cfg.Name, Path: c.Path, Dst: dst, Src: dst, Pos: pos, Fault: f, Trunc: k})
						}
					}
				}
			}
		}
	}
}

func c06Searches(p *run.Part, tier string) []*seqx.Search {
	depth := 4
	if tier == "thorough" {
		depth = 6
	}
	dl := Budget(tier)
	seen := &sync.Map{}
	alpha := Alphabet(2, false)
	var ss []*seqx.Search
	for _, c := range c06Cfgs {
		cfg := Configs[c.name]
		d := depth
		if c.codec != "default" || c.policy != "allow" {
			d = depth
		}
		s := &seqx.Search{Part: p, Check: "policy", Cfg: cfg, Alphabet: alpha, Depth: d, Deadline: dl, OnTransition: c06Transition(p)}
		if strings.HasPrefix(c.policy, "allow") {
			s.OnState = c06Probe(p, cfg, seen)
		}
		ss = append(ss, s)
	}
	rl := &seqx.Search{Part: p, Check: "reloaded-policy", Cfg: Configs["denyB/default"], Alphabet: alpha, Depth: depth - 1, Deadline: dl,
		OnState: func(w *seqx.World, c seqx.Case) {
			key := "reload" + fmt.Sprint(hashesOf(w.Logs[0].Heads().Slice()), hashesOf(w.Logs[1].Heads().Slice()))
			if _, dup := seen.LoadOrStore(key, true); dup {
				return
			}
			for _, ld := range []string{"json", "multihash", "entry", "entryhash"} {
				reloadPolicyOne(p, reloadCase{Case: c, Loader: ld})
			}
		}}
	ss = append(ss, rl)
	rs := &seqx.Search{Part: p, Check: "revocation", Cfg: cfgRevocable, Alphabet: alpha, Depth: depth, Deadline: dl,
		OnState: func(w *seqx.World, c seqx.Case) {
			for _, pr := range [][2]int{{0, 1}, {1, 0}} {
				key := "revoke" + fmt.Sprint(hashesOf(w.Logs[pr[0]].Heads().Slice()), hashesOf(w.Logs[pr[1]].Heads().Slice()), pr[0])
				if _, dup := seen.LoadOrStore(key, true); dup {
					continue
				}
				revokeOne(p, revokeCase{Case: c, Dst: pr[0], Src: pr[1]})
			}
		}}
	ss = append(ss, rs)
	return ss
}

func init() {
	Configs[cfgRevocable.Name] = cfgRevocable
	register(&Check{ID: "C06", Run: func(p *run.Part, tier string) {
		p.Rule = "(A) transitions of the 2-replica BFS under three access policies and three codecs; (B) tampered merges (state, dst, src, position, fault kind) de-duplicated on the pair of replica states; non-trivial = distinct denied appends/merges and distinct rejected tampered merges"
		p.Assume("2 replicas, depth as in extra.searches, sources of <= 5 entries for tampering; policies: deny one writer, deny one payload; codecs: default, link-key, legacy pb; the concurrent verification workers are explored separately by the scheduler engine")
		runSearches(p, c06Searches(p, tier))
		p.Sample(8, c06Case{Config: "allow/default", Path: Shapes["fork"], Dst: 1, Src: 0, Pos: 2, Fault: "payload-altered"})
	}, Replay: func(p *run.Part, check string, raw []byte) {
		if check == "reloaded-policy" && bytes.Contains(raw, []byte(`"reload_loader"`)) {
			var rc reloadCase
			if err := jsonUnmarshal(raw, &rc); err != nil {
				panic(err)
			}
			reloadPolicyOne(p, rc)
			return
		}
		if check == "revocation" && bytes.Contains(raw, []byte(`"dst"`)) {
			var rc revokeCase
			if err := jsonUnmarshal(raw, &rc); err != nil {
				panic(err)
			}
			revokeOne(p, rc)
			return
		}
		if check == "tamper" {
			var cc c06Case
			if err := jsonUnmarshal(raw, &cc); err != nil {
				panic(err)
			}
			tamperOne(p, Configs[cc.Config], cc)
			return
		}
		seqReplay(c06Searches)(p, check, raw)
	}})
}

var _ = sort.Strings

// expectedDenial reports whether op is an operation the destination's access policy must refuse
// (configurations with a policy only) and st indeed failed.
func expectedDenial(w *seqx.World, pre *seqx.Pre, op seqx.Op, st *seqx.Step) bool {
	if st.Err == nil || st.Panic != "" {
		return false
	}
	pol := policyOf(w.Cfg.Name, op.A)
	if pol.writerID == "" && pol.payload == "" {
		return false
	}
	switch op.K {
	case "app":
		return pol.writerID == world.IDs[w.WriterOf[op.A]].ID || (pol.payload != "" && pol.payload == fmt.Sprintf("p%d", w.NApp))
	case "join":
		have := map[string]bool{}
		for _, h := range pre.Values[op.A] {
			have[h] = true
		}
		for u := range w.ML[op.B].Set {
			if !have[w.Ent[u].GetHash().String()] && pol.denies(w, u) {
				return true
			}
		}
	}
	return false
}

// mkPolicy builds a search over the two-replica policy configuration with the extended alphabet (self/empty/foreign merges).
func mkPolicy(mk func(cfg *seqx.Config, prefix string, d int) *seqx.Search, cfgName string, depth int) *seqx.Search {
	s := mk(Configs[cfgName], "", depth)
	s.Alphabet = Alphabet(2, true)
	return s
}

// lenientProvider parses every key into one that accepts every signature.
type lenientProvider struct{ idp.Interface }

func (l lenientProvider) UnmarshalPublicKey(data []byte) (crypto.PubKey, error) {
	k, err := l.Interface.UnmarshalPublicKey(data)
	if err != nil {
		return nil, err
	}
	return acceptAllKey{k}, nil
}

type acceptAllKey struct{ crypto.PubKey }

func (acceptAllKey) Verify(data []byte, sig []byte) (bool, error) { return true, nil }

// ---------------------------------------------------------------------------
// Revocation: both replicas consult ONE controller instance (as logs of one application do), and its verdict
// changes over time. A writer appends while permitted, is revoked, and only then is its log merged: the
// merging log's controller denies those entries NOW, so the merge is refused and changes nothing, whoever
// else the controller also guards.

type revocableAC struct {
	mu      sync.Mutex
	revoked map[string]bool
}

func (r *revocableAC) CanAppend(e accesscontroller.LogEntry, _ idp.Interface, _ accesscontroller.CanAppendAdditionalContext) error {
	r.mu.Lock()
	defer r.mu.Unlock()
	if e.GetIdentity() != nil && r.revoked[e.GetIdentity().ID] {
		return fmt.Errorf("policy: writer revoked")
	}
	return nil
}

var cfgRevocable = &seqx.Config{Name: "revocable-shared-controller", Writers: []int{0, 1}, PC: 4,
	ACShared: func() accesscontroller.Interface { return &revocableAC{revoked: map[string]bool{}} }}

type revokeCase struct {
	seqx.Case
	Dst int `json:"dst"`
	Src int `json:"src"`
}

func revokeOne(p *run.Part, rc revokeCase) {
	w := seqx.Replay(cfgRevocable, rc.Path)
	dst, src := w.Logs[rc.Dst], w.Logs[rc.Src]
	// does the source hold an entry of its writer that the destination lacks?
	srcWriter := world.IDs[w.WriterOf[rc.Src]].ID
	brings := false
	for _, e := range src.GetEntries().Slice() {
		if _, ok := dst.Get(e.GetHash()); !ok && e.GetIdentity() != nil && e.GetIdentity().ID == srcWriter {
			brings = true
		}
	}
	if !brings {
		return
	}
	ac := w.SharedAC.(*revocableAC)
	ac.mu.Lock()
	ac.revoked[srcWriter] = true
	ac.mu.Unlock()
	pre := seqx.SnapPre(w, false)
	var err error
	pv, stack := run.Safe(func() { _, err = dst.Join(src, -1) })
	p.Add(0, 1, 0, 1)
	desc := fmt.Sprintf("after %s, writer of replica %d revoked, then join(%d<-%d)", seqx.PathString(rc.Path), rc.Src, rc.Dst, rc.Src)
	switch {
	case pv != nil:
		p.Violate("revocation", "C06:panic:revoked-merge:"+run.PanicSite(stack), fmt.Sprintf("%s panicked: %v", desc, pv), rc)
	case err == nil:
		p.Violate("revocation", "C06:denied-merge-accepted:shared-controller", desc+": the merge succeeded although the destination's controller denies the writer now", rc)
	default:
		if d := unchanged(w, pre, rc.Dst); d != "" {
			p.Violate("revocation", "C06:failed-merge-changed-log", fmt.Sprintf("%s: refused (%v) but %s", desc, err, d), rc)
			return
		}
		p.Add(0, 0, 1, 0)
		p.Nontriv("revoked:" + pre.Key)
	}
}

// ---------------------------------------------------------------------------
// A log restored from the store keeps the controller it is given: for every state of the deny-one-writer
// configuration, replica 0 (whose controller denies writer B) is rebuilt by each loader with that controller in its
// options — and nothing else: no codec, no ordering — and then merges replica 1. If replica 1 brings entries of the
// denied writer the merge is refused and changes nothing.

type reloadCase struct {
	seqx.Case
	Loader string `json:"reload_loader"`
}

func reloadPolicyOne(p *run.Part, rc reloadCase) {
	cfg := Configs["denyB/default"]
	w := seqx.Replay(cfg, rc.Path)
	l0, l1 := w.Logs[0], w.Logs[1]
	if l0.Len() == 0 {
		return
	}
	denied := world.IDs[1].ID
	brings := false
	for _, e := range l1.GetEntries().Slice() {
		if _, ok := l0.Get(e.GetHash()); !ok && e.GetIdentity() != nil && e.GetIdentity().ID == denied {
			brings = true
		}
	}
	if !brings {
		return
	}
	heads := l0.Heads().Slice()
	var hashes []cid.Cid
	for _, h := range heads {
		hashes = append(hashes, h.GetHash())
	}
	lo := &ipfslog.LogOptions{ID: "X", AccessController: policyFor("denyB")}
	var l *ipfslog.IPFSLog
	var err error
	switch rc.Loader {
	case "json":
		l, err = ipfslog.NewFromJSON(world.Ctx, w.St, world.IDs[0], &iface.JSONLog{ID: "X", Heads: hashes}, lo, &iface.FetchOptions{})
	case "multihash":
		var mh cid.Cid
		if mh, err = l0.ToMultihash(world.Ctx); err == nil {
			l, err = ipfslog.NewFromMultihash(world.Ctx, w.St, world.IDs[0], mh, lo, &ipfslog.FetchOptions{})
		}
	case "entry":
		l, err = ipfslog.NewFromEntry(world.Ctx, w.St, world.IDs[0], append([]iface.IPFSLogEntry{}, heads...), lo, &iface.FetchOptions{})
	case "entryhash":
		if len(hashes) != 1 {
			return
		}
		l, err = ipfslog.NewFromEntryHash(world.Ctx, w.St, world.IDs[0], hashes[0], lo, &ipfslog.FetchOptions{})
	}
	desc := fmt.Sprintf("after %s: replica 0 rebuilt with %s under its controller, then join(<-1)", seqx.PathString(rc.Path), rc.Loader)
	if err != nil || l == nil {
		p.Violate("reloaded-policy", "C06:reload-failed:"+rc.Loader, fmt.Sprintf("%s: the rebuild failed: %v", desc, err), rc)
		return
	}
	before := sortedStrings(hashesOf(l.GetEntries().Slice()))
	var jerr error
	pv, stack := run.Safe(func() { _, jerr = l.Join(l1, -1) })
	p.Add(0, 1, 0, 1)
	switch {
	case pv != nil:
		p.Violate("reloaded-policy", "C06:panic:reloaded-merge:"+run.PanicSite(stack), fmt.Sprintf("%s panicked: %v", desc, pv), rc)
	case jerr == nil:
		p.Violate("reloaded-policy", "C06:denied-merge-accepted:reloaded:"+rc.Loader, desc+": the merge succeeded although the controller given to the loader denies the writer", rc)
	case !eqStrings(before, sortedStrings(hashesOf(l.GetEntries().Slice()))):
		p.Violate("reloaded-policy", "C06:failed-merge-changed-log", desc+": refused, but the entries changed", rc)
	default:
		p.Add(0, 0, 1, 0)
		p.Nontriv("reloaded:" + rc.Loader + seqx.PathString(rc.Path))
	}
}
