package seq

import (
	"fmt"
	"sync"

	"verif/engine/run"
	"verif/engine/seqx"
)

// C14, sequential part: a merge from a source that has just been truncated by a size-bounded
// merge. For every BFS state, every ordered pair (dst, src) and every bound n, src.Join(third, n)
// is applied and then dst.Join(src): the result must be exactly (dst before) ∪ (what src holds
// now), every head of the result must be one of its entries, and no error or panic may occur.
// (The concurrent scenarios are the scheduler part; this part covers "a state the source really
// had" when that state was produced by truncation rather than growth.)

type c14Case struct {
	Config string    `json:"config"`
	Path   []seqx.Op `json:"path"`
	Dst    int       `json:"dst"`
	Src    int       `json:"src"`
	Third  int       `json:"third"`
	N      int       `json:"n"`
}

func truncatedSourceOne(p *run.Part, cfg *seqx.Config, cc c14Case) {
	w := seqx.Replay(cfg, cc.Path)
	dst, src, third := w.Logs[cc.Dst], w.Logs[cc.Src], w.Logs[cc.Third]
	path := seqx.PathString(cc.Path)
	desc := fmt.Sprintf("after %s: replica %d merges replica %d, which was just truncated by Join(replica %d, %d)", path, cc.Dst, cc.Src, cc.Third, cc.N)
	var err error
	pv, stack := run.Safe(func() { _, err = src.Join(third, cc.N) })
	if pv != nil || err != nil {
		return // bounded merges themselves are C16's subject
	}
	before := map[string]bool{}
	for _, e := range dst.GetEntries().Slice() {
		before[e.GetHash().String()] = true
	}
	srcNow := map[string]bool{}
	for _, e := range src.GetEntries().Slice() {
		srcNow[e.GetHash().String()] = true
	}
	pv, stack = run.Safe(func() { _, err = dst.Join(src, -1) })
	p.Add(0, 1, 0, 1)
	if pv != nil {
		p.Violate("truncated-source", "C14:merge-panic:"+run.PanicSite(stack), fmt.Sprintf("%s: panic %v at %s", desc, pv, stack), cc)
		return
	}
	if err != nil {
		p.Violate("truncated-source", "C14:merge-error", fmt.Sprintf("%s: %v", desc, err), cc)
		return
	}
	got := map[string]bool{}
	for _, e := range dst.GetEntries().Slice() {
		got[e.GetHash().String()] = true
	}
	for _, h := range dst.Heads().Slice() {
		if !got[h.GetHash().String()] {
			p.Violate("truncated-source", "C14:final:head-not-entry", fmt.Sprintf("%s: head %s of the result is not one of its entries", desc, string(h.GetPayload())), cc)
			return
		}
	}
	for h := range got {
		if !before[h] && !srcNow[h] {
			p.Violate("truncated-source", "C14:merge-not-a-snapshot", desc+": the result holds an entry that neither the destination nor the source held", cc)
			return
		}
	}
	for h := range before {
		if !got[h] {
			p.Violate("truncated-source", "C14:merge-lost-own-entry", desc+": the destination lost one of its own entries", cc)
			return
		}
	}
	// every head the source holds now, and everything of its history the source still holds, must have arrived
	// (walk from the source's heads through the entries it holds)
	byHash := map[string][]string{}
	for _, e := range src.GetEntries().Slice() {
		for _, n := range e.GetNext() {
			byHash[e.GetHash().String()] = append(byHash[e.GetHash().String()], n.String())
		}
	}
	var stackH []string
	for _, h := range src.Heads().Slice() {
		stackH = append(stackH, h.GetHash().String())
	}
	seen := map[string]bool{}
	for len(stackH) > 0 {
		h := stackH[len(stackH)-1]
		stackH = stackH[:len(stackH)-1]
		if seen[h] || !srcNow[h] {
			continue
		}
		seen[h] = true
		if !got[h] {
			p.Violate("truncated-source", "C14:merge-not-a-snapshot", desc+": an entry in the history of the source's heads, held by the source, is missing from the result", cc)
			return
		}
		stackH = append(stackH, byHash[h]...)
	}
	p.Add(0, 0, 1, 0)
	if cc.N > 0 && cc.N < len(srcNow)+1 {
		p.Nontriv(fmt.Sprint(cc.Dst, cc.Src, cc.N, len(srcNow), len(before)))
	}
}

func c14Probe(p *run.Part, cfg *seqx.Config, seen *sync.Map) func(w *seqx.World, c seqx.Case) {
	return func(w *seqx.World, c seqx.Case) {
		n := len(w.Logs)
		for d := 0; d < n; d++ {
			for s := 0; s < n; s++ {
				if d == s {
					continue
				}
				t := 3 - d - s
				key := cfg.Name + fmt.Sprint(hashesOf(w.Logs[d].Heads().Slice()), hashesOf(w.Logs[s].Heads().Slice()), hashesOf(w.Logs[t].Heads().Slice()), d, s)
				if _, dup := seen.LoadOrStore(key, true); dup {
					continue
				}
				total := map[int]bool{}
				for u := range w.ML[s].Set {
					total[u] = true
				}
				for u := range w.ML[t].Set {
					total[u] = true
				}
				for k := 0; k <= len(total); k++ {
					truncatedSourceOne(p, cfg, c14Case{Config: cfg.Name, Path: c.Path, Dst: d, Src: s, Third: t, N: k})
				}
			}
		}
	}
}

func c14Searches(p *run.Part, tier string) []*seqx.Search {
	depth := 4
	if tier == "thorough" {
		depth = 5
	}
	seen := &sync.Map{}
	return []*seqx.Search{{Part: p, Check: "truncated-source", Cfg: CfgDef3, Alphabet: Alphabet(3, false), Depth: depth, Deadline: Budget(tier), OnState: c14Probe(p, CfgDef3, seen)}}
}

func init() {
	register(&Check{ID: "C14", Run: func(p *run.Part, tier string) {
		p.Rule = "cases = (BFS state, dst, src, bound n): src is truncated by a size-bounded merge of the third replica, then merged into dst; non-trivial = distinct cases with a real truncation"
		p.Assume("sequential part only covers sources whose state was produced by truncation; interleavings are the scheduler part")
		runSearches(p, c14Searches(p, tier))
		c14Busy(p, tier)
		p.Sample(4, c14Case{Config: "def3", Path: seqx.Shapes["heads3"], Dst: 1, Src: 0, Third: 2, N: 2})
	}, Replay: func(p *run.Part, check string, raw []byte) {
		if check == "busy-source" {
			var bc busyCase
			if err := jsonUnmarshal(raw, &bc); err != nil {
				panic(err)
			}
			busyOne(p, bc)
			return
		}
		var cc c14Case
		if err := jsonUnmarshal(raw, &cc); err != nil {
			panic(err)
		}
		truncatedSourceOne(p, Configs[cc.Config], cc)
	}})
}
