package seq

import (
	"fmt"
	"sort"
	"strings"

	"verif/engine/run"
	"verif/engine/seqx"
)

// C01 — replicas that merged the same entries converge.
//
// (a) lock-step agreement with the model (merge = set union, heads = unreferenced);
// (b) any two replicas holding the same entry set expose the same heads, the same
//     manifest, and - under a strict ordering - the same Values() sequence;
// (c) a canonical state reached again by a different history has the same observables
//     (checked inside the BFS driver: order, grouping and repetition of merges);
// (d) merging a log with itself, an empty log or a log of another id changes nothing;
// (e) completion: from every frontier state, every order of the six directed merges,
//     applied for two rounds, ends with all replicas equal to the model union.

func convergeOracle(p *run.Part, check string, w *seqx.World, c seqx.Case) {
	n := len(w.Logs)
	type view struct {
		set, heads, jl, vals []string
	}
	vs := make([]view, n)
	for i, l := range w.Logs {
		vs[i].set = sortedStrings(hashesOf(l.GetEntries().Slice()))
		vs[i].heads = hashesOf(l.Heads().Slice())
		for _, h := range l.ToJSONLog().Heads {
			vs[i].jl = append(vs[i].jl, h.String())
		}
		vs[i].vals = hashesOf(l.Values().Slice())
	}
	for i := 0; i < n; i++ {
		for j := i + 1; j < n; j++ {
			if len(vs[i].set) == 0 || !eqStrings(vs[i].set, vs[j].set) {
				continue
			}
			if !eqStrings(sortedStrings(vs[i].heads), sortedStrings(vs[j].heads)) {
				p.Violate(check, "C01:same-entries-different-heads", fmt.Sprintf("after %s: replicas %d and %d hold the same entries but heads %s vs %s", seqx.PathString(c.Path), i, j, short(w, vs[i].heads), short(w, vs[j].heads)), c)
			}
			strict := w.Strict(i)
			if strict {
				if !eqStrings(vs[i].vals, vs[j].vals) {
					p.Violate(check, "C01:same-entries-different-values", fmt.Sprintf("after %s: replicas %d and %d hold the same entries, the ordering is strict on them, but Values() %s vs %s", seqx.PathString(c.Path), i, j, short(w, vs[i].vals), short(w, vs[j].vals)), c)
				}
				if !eqStrings(vs[i].jl, vs[j].jl) || !eqStrings(vs[i].heads, vs[j].heads) {
					p.Violate(check, "C01:same-entries-different-manifest", fmt.Sprintf("after %s: replicas %d and %d hold the same entries but publish head lists %s vs %s", seqx.PathString(c.Path), i, j, short(w, vs[i].jl), short(w, vs[j].jl)), c)
				}
			} else if !eqStrings(sortedStrings(vs[i].jl), sortedStrings(vs[j].jl)) {
				p.Violate(check, "C01:same-entries-different-manifest-set", fmt.Sprintf("after %s: replicas %d and %d hold the same entries but publish head sets %s vs %s", seqx.PathString(c.Path), i, j, short(w, vs[i].jl), short(w, vs[j].jl)), c)
			}
		}
	}
}

func c01Transition(p *run.Part) func(w *seqx.World, pre *seqx.Pre, op seqx.Op, st *seqx.Step, c seqx.Case) {
	return func(w *seqx.World, pre *seqx.Pre, op seqx.Op, st *seqx.Step, c seqx.Case) {
		if stepFailure(p, "bfs", op, st, c) {
			return
		}
		modelAgree(p, "bfs", w, op, c)
		convergeOracle(p, "bfs", w, c)
		switch op.K {
		case "joinself", "joinempty", "joinforeign":
			if w.Key() != pre.Key {
				p.Violate("bfs", "C01:neutral-merge-changed-state:"+op.K, fmt.Sprintf("after %s: %s changed the log (entries, heads, clock or reverse index)", seqx.PathString(c.Path), op), c)
			}
			for i := range w.Logs {
				if !eqStrings(hashesOf(w.Logs[i].Values().Slice()), pre.Values[i]) {
					p.Violate("bfs", "C01:neutral-merge-changed-values:"+op.K, fmt.Sprintf("after %s: %s changed Values() of replica %d", seqx.PathString(c.Path), op, i), c)
				}
			}
		case "join":
			// idempotence: repeating the same merge immediately changes nothing
			k1, o1 := w.Key(), w.Obs()
			st2 := w.Apply(op)
			if st2.Err != nil || st2.Panic != "" || w.Key() != k1 || w.Obs() != o1 {
				p.Violate("bfs", "C01:merge-not-idempotent", fmt.Sprintf("after %s: repeating %s changed the state or failed (%v %s)", seqx.PathString(c.Path), op, st2.Err, st2.PanV), c)
			}
		}
	}
}

// permutations of 0..n-1 in lexicographic order.
func permutations(n int) [][]int {
	var res [][]int
	a := make([]int, n)
	for i := range a {
		a[i] = i
	}
	var rec func(k int)
	rec = func(k int) {
		if k == n {
			res = append(res, append([]int{}, a...))
			return
		}
		for i := k; i < n; i++ {
			a[k], a[i] = a[i], a[k]
			rec(k + 1)
			a[k], a[i] = a[i], a[k]
		}
	}
	rec(0)
	sort.Slice(res, func(x, y int) bool {
		for i := range res[x] {
			if res[x][i] != res[y][i] {
				return res[x][i] < res[y][i]
			}
		}
		return false
	})
	return res
}

type completionCase struct {
	Config string    `json:"config"`
	Path   []seqx.Op `json:"path"`
	Order  []int     `json:"order"`
}

func directedJoins(n int) []seqx.Op {
	var js []seqx.Op
	for i := 0; i < n; i++ {
		for j := 0; j < n; j++ {
			if i != j {
				js = append(js, seqx.Op{K: "join", A: i, B: j})
			}
		}
	}
	return js
}

func completionOne(p *run.Part, cfg *seqx.Config, cc completionCase) {
	js := directedJoins(len(cfg.Writers))
	w := seqx.Replay(cfg, cc.Path)
	// expected union from the model
	union := map[int]bool{}
	for _, ml := range w.ML {
		for u := range ml.Set {
			union[u] = true
		}
	}
	for round := 0; round < 2; round++ {
		for _, k := range cc.Order {
			st := w.Apply(js[k])
			if st.Err != nil || st.Panic != "" {
				p.Violate("completion", "C01:completion-merge-failed", fmt.Sprintf("from %s, merge order %v: %s failed: %v %s", seqx.PathString(cc.Path), cc.Order, js[k], st.Err, st.PanV), cc)
				return
			}
		}
	}
	p.Add(0, int64(2*len(cc.Order)), 0, 1)
	want := make([]int, 0, len(union))
	for u := range union {
		want = append(want, u)
	}
	sort.Ints(want)
	wantHeads := w.M.HeadsOf(union)
	var ref []string
	for i, l := range w.Logs {
		var got []int
		for _, e := range l.GetEntries().Slice() {
			got = append(got, w.UID[e.GetHash().String()])
		}
		sort.Ints(got)
		if fmt.Sprint(got) != fmt.Sprint(want) {
			p.Violate("completion", "C01:completion-entries", fmt.Sprintf("from %s, after two rounds of the six merges in order %v replica %d holds %v, union is %v", seqx.PathString(cc.Path), cc.Order, i, got, want), cc)
			return
		}
		var gh []int
		for _, e := range l.Heads().Slice() {
			gh = append(gh, w.UID[e.GetHash().String()])
		}
		sort.Ints(gh)
		if fmt.Sprint(gh) != fmt.Sprint(wantHeads) {
			p.Violate("completion", "C01:completion-heads", fmt.Sprintf("from %s, order %v: replica %d heads %v, expected %v", seqx.PathString(cc.Path), cc.Order, i, gh, wantHeads), cc)
			return
		}
		if w.Strict(i) {
			vals := hashesOf(l.Values().Slice())
			if ref == nil {
				ref = vals
			} else if !eqStrings(ref, vals) {
				p.Violate("completion", "C01:completion-values", fmt.Sprintf("from %s, order %v: converged replicas linearise differently: %s vs %s", seqx.PathString(cc.Path), cc.Order, short(w, ref), short(w, vals)), cc)
				return
			}
		}
	}
	p.Add(0, 0, 1, 0)
}

func completion(p *run.Part, cfg *seqx.Config, frontier [][]seqx.Op, dl *run.Deadline) {
	perms := permutations(6)
	type job struct {
		path []seqx.Op
		perm []int
	}
	var jobs []job
	for _, f := range frontier {
		for _, pm := range perms {
			jobs = append(jobs, job{f, pm})
		}
	}
	expired := false
	seqx.ParallelFor(len(jobs), 0, func(i, slot int) {
		if dl.Expired() {
			expired = true
			return
		}
		cc := completionCase{Config: cfg.Name, Path: jobs[i].path, Order: jobs[i].perm}
		run.TheJournal.Begin(slot, "C01", "completion", cc)
		completionOne(p, cfg, cc)
		run.TheJournal.End(slot)
	})
	if expired {
		p.Inexhaustive("completion phase hit the deadline")
	}
	p.SetExtra("completion_"+cfg.Name, map[string]int{"start_states": len(frontier), "merge_orders_per_state": len(perms), "sequences": len(jobs)})
	if len(jobs) > 0 {
		j := jobs[len(jobs)/3]
		p.Sample(8, map[string]interface{}{"completion_from": seqx.PathString(j.path), "merge_order": j.perm, "rounds": 2})
	}
}

func c01Searches(p *run.Part, tier string) []*seqx.Search {
	depth := 6
	if tier == "thorough" {
		depth = 7
	}
	dl := Budget(tier)
	mk := func(cfg *seqx.Config, prefix string, d int) *seqx.Search {
		return &seqx.Search{Part: p, Check: "bfs", Cfg: cfg, Alphabet: Alphabet(3, true), Depth: d, Prefix: Prefixes[prefix], PrefixID: prefix,
			Deadline: dl, Nontrivial: forked, KeepStates: true, OnTransition: c01Transition(p)}
	}
	return []*seqx.Search{mk(CfgDef3, "", depth), mk(CfgHash3, "", depth), mk(CfgShared3, "", depth-1), mk(CfgSharedH, "", depth-1),
		mk(CfgDef3, "+fork12", 2), mk(CfgHash3, "+tri4", 2),
		mk(CfgDef3, "+ab-merged", depth-1), mk(CfgDef3, "+abc", depth-1), mk(CfgDef3, "+a-spread", depth-1), mk2(mk, depth+2), mkEmpty(mk, CfgDef3, depth-1),
		// replicas whose clocks run ahead of their heads (small gaps; a thousand ticks and beyond 2^53): an honest entry may be
		// stamped any number of ticks after its predecessors
		mk(CfgGap3, "", depth-2), mk(CfgClk3, "", depth-2),
		// five writers: two entries that share one new parent, one of them with a second new parent that nothing else
		// leads to, all arriving in ONE merge (and, from the same start state, in two)
		mkFanIn(mk)}
}

func init() {
	register(&Check{ID: "C01", Run: func(p *run.Part, tier string) {
		p.Rule = ruleForked + "; completion sequences: (frontier state, permutation of the six directed merges)"
		p.Assume("replicas <= 3, writers <= 3; depth bound as in extra.searches; completion phase (all 720 merge orders, two rounds) starts from every state at the completion depth")
		ss := c01Searches(p, tier)
		runSearches(p, ss)
		cdepth := 3
		if tier == "thorough" {
			cdepth = 4
		}
		dl := Budget(tier)
		for _, s := range ss[:3] {
			// states whose shortest path has exactly cdepth operations
			var fr [][]seqx.Op
			for _, st := range s.AllStates {
				if len(st) == cdepth {
					fr = append(fr, st)
				}
			}
			completion(p, s.Cfg, fr, dl)
		}
	}, Replay: func(p *run.Part, check string, raw []byte) {
		if check == "completion" {
			var cc completionCase
			if err := jsonUnmarshal(raw, &cc); err != nil {
				panic(err)
			}
			completionOne(p, Configs[cc.Config], cc)
			return
		}
		seqReplay(c01Searches)(p, check, raw)
	}})
}

var _ = strings.Join

// mkEmpty: the alphabet with an empty-payload append (and no self/empty/foreign merges, to keep it small).
func mkEmpty(mk func(cfg *seqx.Config, prefix string, d int) *seqx.Search, cfg *seqx.Config, depth int) *seqx.Search {
	s := mk(cfg, "", depth)
	s.Alphabet = WithEmpty(Alphabet(3, false))
	s.Check = "bfs"
	return s
}

var cfgFive = &seqx.Config{Name: "five", Writers: []int{0, 1, 2, 3, 4}, PC: 4}

func mkFanIn(mk func(cfg *seqx.Config, prefix string, d int) *seqx.Search) *seqx.Search {
	Prefixes["+fan-in"] = []seqx.Op{{K: "app", A: 0}, {K: "app", A: 1}, {K: "join", A: 2, B: 0}, {K: "app", A: 2},
		{K: "join", A: 3, B: 0}, {K: "join", A: 3, B: 1}, {K: "app", A: 3}, {K: "join", A: 3, B: 2}}
	Configs[cfgFive.Name] = cfgFive
	s := mk(cfgFive, "+fan-in", 2)
	s.Alphabet = []seqx.Op{{K: "join", A: 4, B: 3}, {K: "join", A: 4, B: 2}, {K: "join", A: 4, B: 0}, {K: "join", A: 4, B: 1}, {K: "join", A: 2, B: 3}, {K: "join", A: 0, B: 3}, {K: "join", A: 1, B: 3}, {K: "app", A: 4}}
	return s
}
