package seq

import (
	"fmt"
	"sync"
	"verif/engine/world"

	"verif/engine/run"
	"verif/engine/seqx"
)

// C16 — a size-bounded merge keeps exactly the newest entries of the full merge.
//
// For every state of the BFS, every ordered pair of distinct replicas (dst, src) and every
// n in 0..total+1, dst.Join(src, n) is executed on a replayed copy. Reference: the
// linearisation produced by the real unbounded merge on another copy (and, under a strict
// ordering, the model's). Oracle: no panic, no error; Values() = the last min(n,total) of
// the reference; entry set and Len() agree; heads = unreferenced among the kept entries;
// n >= total behaves exactly like the unbounded merge.

type c16Case struct {
	Config string    `json:"config"`
	Path   []seqx.Op `json:"path"`
	Dst    int       `json:"dst"`
	Src    int       `json:"src"`
	N      int       `json:"n"`
	// Two-step cases: the destination is first truncated by Join(Src, N1), then the judged merge is Join(Third, N)
	TwoStep bool `json:"two_step,omitempty"`
	N1      int  `json:"n1,omitempty"`
	Third   int  `json:"third,omitempty"`
}

// twoStepOne: a size-bounded merge into a log that an earlier size-bounded merge has already truncated.
// Reference: the same first step followed by the UNBOUNDED second merge on another copy.
func twoStepOne(p *run.Part, cfg *seqx.Config, cc c16Case) {
	path := seqx.PathString(cc.Path)
	desc := fmt.Sprintf("after %s: replica %d truncated by Join(%d, %d), then Join(%d, size=%d)", path, cc.Dst, cc.Src, cc.N1, cc.Third, cc.N)
	ref := seqx.Replay(cfg, cc.Path)
	var err error
	pv, stack := run.Safe(func() {
		if _, err = ref.Logs[cc.Dst].Join(ref.Logs[cc.Src], cc.N1); err == nil {
			_, err = ref.Logs[cc.Dst].Join(ref.Logs[cc.Third], -1)
		}
	})
	if pv != nil {
		p.Violate("bounded2", "C16:panic:two-step-reference:"+run.PanicSite(stack), fmt.Sprintf("%s (second merge unbounded) panicked: %v at %s", desc, pv, stack), cc)
		return
	}
	if err != nil {
		p.Violate("bounded2", "C16:error:two-step-reference", fmt.Sprintf("%s (second merge unbounded) failed: %v", desc, err), cc)
		return
	}
	full := hashesOf(ref.Logs[cc.Dst].Values().Slice())
	w := seqx.Replay(cfg, cc.Path)
	pv, stack = run.Safe(func() {
		if _, err = w.Logs[cc.Dst].Join(w.Logs[cc.Src], cc.N1); err == nil {
			_, err = w.Logs[cc.Dst].Join(w.Logs[cc.Third], cc.N)
		}
	})
	p.Add(0, 1, 0, 1)
	if pv != nil {
		p.Violate("bounded2", "C16:panic:two-step:"+run.PanicSite(stack), fmt.Sprintf("%s panicked: %v at %s", desc, pv, stack), cc)
		return
	}
	if err != nil {
		p.Violate("bounded2", "C16:error:two-step", fmt.Sprintf("%s failed: %v", desc, err), cc)
		return
	}
	k := cc.N
	if k > len(full) {
		k = len(full)
	}
	got := hashesOf(w.Logs[cc.Dst].Values().Slice())
	un := ref.ML[cc.Dst].Clone()
	ref.M.Join(un, ref.ML[cc.Src])
	ref.M.Join(un, ref.ML[cc.Third])
	if !cfg.HashTie && ref.M.HasTie(un.Set) {
		if len(got) > cc.N {
			p.Violate("bounded2", "C16:two-step:too-many", fmt.Sprintf("%s: %d entries kept", desc, len(got)), cc)
		}
		return
	}
	if !eqStrings(got, full[len(full)-k:]) {
		p.Violate("bounded2", "C16:two-step:values", fmt.Sprintf("%s: Values()=%s, the last %d of the unbounded second merge are %s", desc, short(ref, got), k, short(ref, full[len(full)-k:])), cc)
		return
	}
	p.Add(0, 0, 1, 0)
	p.Nontriv(fmt.Sprint("2step", got, cc.N1, cc.N))
}

func boundedJoinOne(p *run.Part, cfg *seqx.Config, cc c16Case) {
	path := seqx.PathString(cc.Path)
	ref := seqx.Replay(cfg, cc.Path)
	if _, err := ref.Logs[cc.Dst].Join(ref.Logs[cc.Src], -1); err != nil {
		p.Violate("bounded", "C16:unbounded-reference-failed", fmt.Sprintf("after %s: unbounded join %d<-%d failed: %v", path, cc.Dst, cc.Src, err), cc)
		return
	}
	full := hashesOf(ref.Logs[cc.Dst].Values().Slice())
	total := len(full)
	fullHeads := sortedStrings(hashesOf(ref.Logs[cc.Dst].Heads().Slice()))
	w := seqx.Replay(cfg, cc.Path)
	var err error
	pv, stack := run.Safe(func() { _, err = w.Logs[cc.Dst].Join(w.Logs[cc.Src], cc.N) })
	rel := "below"
	if cc.N >= total {
		rel = "at-or-above"
	}
	if pv != nil {
		p.Violate("bounded", "C16:panic:n-"+rel+"-total:"+run.PanicSite(stack), fmt.Sprintf("after %s: Join(%d<-%d, size=%d) with merged size %d panicked: %v at %s", path, cc.Dst, cc.Src, cc.N, total, pv, stack), cc)
		return
	}
	if err != nil {
		p.Violate("bounded", "C16:error:n-"+rel+"-total", fmt.Sprintf("after %s: Join(%d<-%d, size=%d) returned %v", path, cc.Dst, cc.Src, cc.N, err), cc)
		return
	}
	k := cc.N
	if k > total {
		k = total
	}
	want := full[total-k:]
	l := w.Logs[cc.Dst]
	got := hashesOf(l.Values().Slice())
	unionSet := ref.ML[cc.Dst].Clone()
	ref.M.Join(unionSet, ref.ML[cc.Src])
	if !cfg.HashTie && ref.M.HasTie(unionSet.Set) {
		// The ordering is not strict on these entries (two of them share clock id and time): the linearisation of
		// the unbounded merge is then not unique (recorded known finding of C05), so "the last n of it" is only
		// determined up to the order inside a tie group. Judged instead: the right number of entries, all from the
		// union, no dropped entry strictly newer than a kept one, heads = unreferenced among the kept.
		tiedOracle(p, ref, w, cc, got, k, rel)
		return
	}
	if !eqStrings(got, want) {
		p.Violate("bounded", "C16:values:n-"+rel+"-total", fmt.Sprintf("after %s: Join(%d<-%d, size=%d): Values()=%s, the last %d of the full merge are %s", path, cc.Dst, cc.Src, cc.N, short(ref, got), k, short(ref, want)), cc)
		return
	}
	es := l.GetEntries().Slice()
	if !eqStrings(sortedStrings(hashesOf(es)), sortedStrings(want)) || l.Len() != k {
		p.Violate("bounded", "C16:entries:n-"+rel+"-total", fmt.Sprintf("after %s: Join(%d<-%d, size=%d): entries=%s Len=%d, expected %s", path, cc.Dst, cc.Src, cc.N, short(ref, sortedStrings(hashesOf(es))), l.Len(), short(ref, want)), cc)
		return
	}
	gh := sortedStrings(hashesOf(l.Heads().Slice()))
	if wh := unreferenced(es); !eqStrings(gh, wh) {
		p.Violate("bounded", "C16:heads:n-"+rel+"-total", fmt.Sprintf("after %s: Join(%d<-%d, size=%d): heads=%s, unreferenced among the kept entries are %s", path, cc.Dst, cc.Src, cc.N, short(ref, gh), short(ref, wh)), cc)
		return
	}
	if cc.N >= total && !eqStrings(gh, fullHeads) {
		p.Violate("bounded", "C16:not-like-unbounded", fmt.Sprintf("after %s: Join(%d<-%d, size=%d >= %d) differs from the unbounded merge in heads", path, cc.Dst, cc.Src, cc.N, total), cc)
		return
	}
	// under a strict ordering the model fixes the answer as well
	un := ref.ML[cc.Dst].Clone()
	ref.M.Join(un, ref.ML[cc.Src])
	if cfg.SortFor == nil && !cfg.FirstWins && (cfg.HashTie || !ref.M.HasTie(un.Set)) {
		ms := ref.M.JoinN(ref.ML[cc.Dst], ref.ML[cc.Src], cc.N, cfg.HashTie)
		var mw []string
		for _, u := range ref.M.Lin(ms, cfg.HashTie) {
			mw = append(mw, ref.Ent[u].GetHash().String())
		}
		if !eqStrings(mw, want) {
			p.Violate("bounded", "C16:model-disagrees", fmt.Sprintf("after %s: the model's last %d of the union are %s, the implementation's full merge gives %s", path, k, short(ref, mw), short(ref, want)), cc)
			return
		}
		p.Add(0, 0, 1, 0)
	}
	p.Add(0, 1, 0, 1)
	if k > 0 && k < total {
		p.Nontriv(fmt.Sprintf("%v/%d", want, cc.N))
	}
	if cc.N == 0 {
		// the emptied log goes on living: it is written to again, and then ANOTHER log is emptied by a bound of 0.
		// What one log holds is never what another log holds (an "empty" value shared between logs would be).
		if _, err := l.Append(world.Ctx, []byte("after-emptying"), nil); err != nil {
			p.Violate("bounded", "C16:append-after-emptying-failed", fmt.Sprintf("after %s: Join(%d<-%d, size=0), then Append: %v", path, cc.Dst, cc.Src, err), cc)
			return
		}
		o := w.Logs[cc.Src]
		pv, stack := run.Safe(func() { _, err = o.Join(l, 0) })
		if pv != nil || err != nil {
			p.Violate("bounded", "C16:second-emptying-failed", fmt.Sprintf("after %s: Join(%d<-%d, size=0), Append, Join(%d<-%d, size=0): %v %v %s", path, cc.Dst, cc.Src, cc.Src, cc.Dst, pv, err, stack), cc)
			return
		}
		if o.Len() != 0 || o.Values().Len() != 0 || o.Heads().Len() != 0 || l.Len() != 1 {
			p.Violate("bounded", "C16:emptied-logs-share-state", fmt.Sprintf("after %s: Join(%d<-%d, size=0), Append on %d, Join(%d<-%d, size=0): the second emptied log holds %d entries (values %d, heads %d); the first holds %d (expected 0 and 1)", path, cc.Dst, cc.Src, cc.Dst, cc.Src, cc.Dst, o.Len(), o.Values().Len(), o.Heads().Len(), l.Len()), cc)
			return
		}
	}
}

func tiedOracle(p *run.Part, ref, w *seqx.World, cc c16Case, got []string, k int, rel string) {
	path := seqx.PathString(cc.Path)
	l := w.Logs[cc.Dst]
	union := map[int]bool{}
	for u := range ref.ML[cc.Dst].Set {
		union[u] = true
	}
	for u := range ref.ML[cc.Src].Set {
		union[u] = true
	}
	if len(got) != k || len(uniq(got)) != len(got) || l.Len() != k {
		p.Violate("bounded", "C16:entries:n-"+rel+"-total", fmt.Sprintf("after %s: Join(%d<-%d, size=%d): %d entries kept (Len %d), expected %d", path, cc.Dst, cc.Src, cc.N, len(got), l.Len(), k), cc)
		return
	}
	kept := map[int]bool{}
	for _, h := range got {
		u, ok := ref.UID[h]
		if !ok || !union[u] {
			p.Violate("bounded", "C16:entries:n-"+rel+"-total", fmt.Sprintf("after %s: Join(%d<-%d, size=%d) kept an entry that is not in the union", path, cc.Dst, cc.Src, cc.N), cc)
			return
		}
		kept[u] = true
	}
	for d := range union {
		if kept[d] {
			continue
		}
		for kk := range kept {
			if ref.M.Less(kk, d, false) {
				p.Violate("bounded", "C16:values:n-"+rel+"-total", fmt.Sprintf("after %s: Join(%d<-%d, size=%d) dropped %s although it is strictly newer than the kept %s", path, cc.Dst, cc.Src, cc.N, string(ref.Ent[d].GetPayload()), string(ref.Ent[kk].GetPayload())), cc)
				return
			}
		}
	}
	es := l.GetEntries().Slice()
	gh := sortedStrings(hashesOf(l.Heads().Slice()))
	if wh := unreferenced(es); !eqStrings(gh, wh) {
		p.Violate("bounded", "C16:heads:n-"+rel+"-total", fmt.Sprintf("after %s: Join(%d<-%d, size=%d): heads=%s, unreferenced among the kept entries are %s", path, cc.Dst, cc.Src, cc.N, short(ref, gh), short(ref, wh)), cc)
		return
	}
	p.Add(0, 1, 1, 1)
}

func c16Probe(p *run.Part, cfg *seqx.Config, seen *sync.Map) func(w *seqx.World, c seqx.Case) {
	return func(w *seqx.World, c seqx.Case) {
		n := len(w.Logs)
		for d := 0; d < n; d++ {
			for s := 0; s < n; s++ {
				if d == s {
					continue
				}
				// distinct (dst state, src state) pairs only
				key := fmt.Sprint(w.ML[d].UIDs(), w.ML[s].UIDs(), hashesOf(w.Logs[d].Heads().Slice()), hashesOf(w.Logs[s].Heads().Slice()), w.ML[d].Writer)
				if _, dup := seen.LoadOrStore(cfg.Name+key, true); dup {
					continue
				}
				union := map[int]bool{}
				for u := range w.ML[d].Set {
					union[u] = true
				}
				for u := range w.ML[s].Set {
					union[u] = true
				}
				for k := 0; k <= len(union)+1; k++ {
					boundedJoinOne(p, cfg, c16Case{Config: cfg.Name, Path: c.Path, Dst: d, Src: s, N: k})
				}
				// a second size-bounded merge (from the third replica) into the log the first one truncated
				t := 3 - d - s
				if n == 3 && len(w.ML[t].Set) > 0 {
					all := len(union) + len(w.ML[t].Set)
					for n1 := 1; n1 < len(union); n1++ {
						for n2 := 0; n2 <= all+1; n2++ {
							twoStepOne(p, cfg, c16Case{Config: cfg.Name, Path: c.Path, Dst: d, Src: s, N: n2, TwoStep: true, N1: n1, Third: t})
						}
					}
				}
			}
		}
	}
}

func c16Searches(p *run.Part, tier string) []*seqx.Search {
	depth := 4
	if tier == "thorough" {
		depth = 6
	}
	dl := Budget(tier)
	seen := &sync.Map{}
	mk := func(cfg *seqx.Config, prefix string, d int) *seqx.Search {
		return &seqx.Search{Part: p, Check: "bounded", Cfg: cfg, Alphabet: Alphabet(3, false), Depth: d, Prefix: Prefixes[prefix], PrefixID: prefix,
			Deadline: dl, OnState: c16Probe(p, cfg, seen)}
	}
	// "+stale6": replica 0 has a 3-chain of which replica 2 holds a stale 2-prefix, replica 1 a 6-chain: a first
	// bounded merge 0<-1 truncates away replica 0's own chain (leaving its reverse index behind), a second one
	// from the stale replica 2 brings dropped entries back
	Prefixes["+stale6"] = append(append(append(chain(0, 2), seqx.Op{K: "join", A: 2, B: 0}), seqx.Op{K: "app", A: 0}), chain(1, 6)...)
	return []*seqx.Search{mk(CfgDef3, "", depth), mk(CfgHash3, "", depth), mk(CfgShared3, "", depth-1), mk(CfgDef3, "+tri4", 1), mk(CfgDef3, "+stale6", 1), mk(CfgMixSort, "", depth), mk(CfgFww3, "", depth-1)}
}

func init() {
	register(&Check{ID: "C16", Run: func(p *run.Part, tier string) {
		p.Rule = "cases are (state, dst, src, n) with n in 0..total+1, de-duplicated on the pair of replica states; non-trivial = distinct (kept set, n) with 0 < n < total"
		p.Assume("replicas <= 3, depth as in extra.searches; what later operations do on a truncated log is not judged (no property claims it); self-merge with a bound is not generated")
		ss := c16Searches(p, tier)
		runSearches(p, ss)
		p.Sample(8, c16Case{Config: "def3", Path: []seqx.Op{{K: "app", A: 0}, {K: "app", A: 1}, {K: "app", A: 0}}, Dst: 0, Src: 1, N: 2})
	}, Replay: func(p *run.Part, check string, raw []byte) {
		var cc c16Case
		if err := jsonUnmarshal(raw, &cc); err != nil {
			panic(err)
		}
		if cc.TwoStep {
			twoStepOne(p, Configs[cc.Config], cc)
			return
		}
		boundedJoinOne(p, Configs[cc.Config], cc)
	}})
}
