package seq

import (
	"fmt"
	"sync"

	ipfslog "berty.tech/go-ipfs-log"
	"berty.tech/go-ipfs-log/iface"
	"github.com/ipfs/go-cid"

	"verif/engine/run"
	"verif/engine/seqx"
	"verif/engine/world"
)

// C09 / C10, sequential-engine part: every replica state of the 3-replica BFS is published
// and rebuilt with the four loaders (C09: no limit; C10: every limit 0..size+1) at concurrency
// 1 and 3. These loads run on the Go scheduler (the outcome must not depend on it); the
// controlled-scheduler part explores the interleavings on the small shapes.

type loadCase struct {
	Config  string    `json:"config"`
	Path    []seqx.Op `json:"path"`
	Replica int       `json:"replica"`
	Loader  string    `json:"loader"`
	Conc    int       `json:"conc"`
	N       int       `json:"n"` // -1 = no limit
}

func doLoad(w *seqx.World, lc loadCase, mh cid.Cid, heads []iface.IPFSLogEntry, lo *ipfslog.LogOptions) (*ipfslog.IPFSLog, error) {
	var lp *int
	if lc.N >= 0 {
		n := lc.N
		lp = &n
	}
	if lo == nil {
		lo = &ipfslog.LogOptions{ID: "X", SortFn: w.Cfg.SortFnOrNil()}
	}
	var hashes []cid.Cid
	for _, h := range heads {
		hashes = append(hashes, h.GetHash())
	}
	switch lc.Loader {
	case "multihash":
		fo := &ipfslog.FetchOptions{Length: lp, Concurrency: lc.Conc, SortFn: w.Cfg.SortFnOrNil()}
		if lc.N < 0 && lc.Conc == 1 {
			// the ordering of the rebuilt log is what the log options say; the fetch options' ordering only matters
			// for choosing the entries of a limited load. A caller that configures it in one place only is served too.
			fo.SortFn = nil
		}
		return ipfslog.NewFromMultihash(world.Ctx, w.St, world.IDs[0], mh, lo, fo)
	case "entryhash":
		return ipfslog.NewFromEntryHash(world.Ctx, w.St, world.IDs[0], hashes[0], lo, &ipfslog.FetchOptions{Length: lp, Concurrency: lc.Conc})
	case "json":
		return ipfslog.NewFromJSON(world.Ctx, w.St, world.IDs[0], &iface.JSONLog{ID: "X", Heads: hashes}, lo, &iface.FetchOptions{Length: lp, Concurrency: lc.Conc})
	case "entry":
		return ipfslog.NewFromEntry(world.Ctx, w.St, world.IDs[0], append([]iface.IPFSLogEntry{}, heads...), lo, &iface.FetchOptions{Length: lp, Concurrency: lc.Conc})
	case "entry-roomy":
		// the caller's slice has spare capacity (a sub-slice of a larger list, a reused buffer): the loader appends to it
		src := append(make([]iface.IPFSLogEntry, 0, 64), heads...)
		return ipfslog.NewFromEntry(world.Ctx, w.St, world.IDs[0], src, lo, &iface.FetchOptions{Length: lp, Concurrency: lc.Conc})
	}
	panic("loader")
}

func loadOne(p *run.Part, prop string, cfg *seqx.Config, lc loadCase) {
	w := seqx.Replay(cfg, lc.Path)
	l := w.Logs[lc.Replica]
	if l.Len() == 0 {
		return
	}
	heads := l.Heads().Slice()
	if lc.Loader == "entryhash" && len(heads) != 1 {
		return // the statement covers single-headed logs for this loader
	}
	mh, err := l.ToMultihash(world.Ctx)
	if err != nil {
		p.Violate("load", prop+":publish-failed", fmt.Sprintf("after %s: ToMultihash failed: %v", seqx.PathString(lc.Path), err), lc)
		return
	}
	var got *ipfslog.IPFSLog
	// A caller that loads the same log again and again keeps its options object: with concurrency 1 the options
	// of this load were already used for a load of the replica's previous state (one operation earlier).
	var lo *ipfslog.LogOptions
	if lc.N < 0 && lc.Conc == 1 && len(lc.Path) > 0 {
		w0 := seqx.Replay(cfg, lc.Path[:len(lc.Path)-1])
		if l0 := w0.Logs[lc.Replica]; l0.Len() > 0 && (lc.Loader != "entryhash" || l0.Heads().Len() == 1) {
			if mh0, err0 := l0.ToMultihash(world.Ctx); err0 == nil {
				lo = &ipfslog.LogOptions{ID: "X", SortFn: w.Cfg.SortFnOrNil()}
				run.Safe(func() { doLoad(w0, lc, mh0, l0.Heads().Slice(), lo) })
			}
		}
	}
	pv, stack := run.Safe(func() { got, err = doLoad(w, lc, mh, heads, lo) })
	desc := fmt.Sprintf("after %s: replica %d rebuilt with %s (concurrency %d, limit %d)", seqx.PathString(lc.Path), lc.Replica, lc.Loader, lc.Conc, lc.N)
	p.Add(0, 1, 0, 1)
	if pv != nil {
		p.Violate("load", prop+":load-panic:"+run.PanicSite(stack), fmt.Sprintf("%s panicked: %v at %s", desc, pv, stack), lc)
		return
	}
	if err != nil {
		p.Violate("load", prop+":load-error:"+lc.Loader, fmt.Sprintf("%s failed: %v", desc, err), lc)
		return
	}
	orig := hashesOf(l.Values().Slice())
	if lc.N < 0 {
		if got.GetID() != l.GetID() {
			p.Violate("load", "C09:rebuild-id:"+lc.Loader, desc+": id "+got.GetID(), lc)
			return
		}
		if !eqStrings(sortedStrings(hashesOf(got.GetEntries().Slice())), sortedStrings(orig)) {
			p.Violate("load", "C09:rebuild-entries:"+lc.Loader, fmt.Sprintf("%s: holds %s, original %s", desc, short(w, hashesOf(got.Values().Slice())), short(w, orig)), lc)
			return
		}
		for _, e := range got.GetEntries().Slice() {
			if o, ok := l.Get(e.GetHash()); ok && seqx.DumpEntry(e) != seqx.DumpEntry(o) {
				p.Violate("load", "C09:rebuild-entry-content:"+lc.Loader, fmt.Sprintf("%s: rebuilt entry differs from the original:\n  rebuilt  %s\n  original %s", desc, seqx.DumpEntry(e), seqx.DumpEntry(o)), lc)
				return
			}
		}
		if !eqStrings(sortedStrings(hashesOf(got.Heads().Slice())), sortedStrings(hashesOf(heads))) {
			p.Violate("load", "C09:rebuild-heads:"+lc.Loader, fmt.Sprintf("%s: heads %s, original %s", desc, short(w, hashesOf(got.Heads().Slice())), short(w, hashesOf(heads))), lc)
			return
		}
		if w.Strict(lc.Replica) && !eqStrings(hashesOf(got.Values().Slice()), orig) {
			p.Violate("load", "C09:rebuild-values:"+lc.Loader, fmt.Sprintf("%s: values %s, original %s", desc, short(w, hashesOf(got.Values().Slice())), short(w, orig)), lc)
			return
		}
		p.Add(0, 0, 1, 0)
		if len(heads) > 1 {
			p.Nontriv(fmt.Sprint(orig, lc.Loader, lc.Conc))
		}
		return
	}
	// limited load: supplied entries plus the most recent others
	if !w.Strict(lc.Replica) {
		return
	}
	supplied := map[string]bool{}
	switch lc.Loader {
	case "entryhash":
		supplied[heads[0].GetHash().String()] = true
	case "entry", "entry-roomy":
		for _, h := range heads {
			supplied[h.GetHash().String()] = true
		}
	}
	k := len(supplied)
	n := lc.N
	if n < k {
		n = k
	}
	want := map[string]bool{}
	for h := range supplied {
		want[h] = true
	}
	var rest []string
	for _, h := range orig {
		if !supplied[h] {
			rest = append(rest, h)
		}
	}
	m := n - k
	if m > len(rest) {
		m = len(rest)
	}
	for _, h := range rest[len(rest)-m:] {
		want[h] = true
	}
	gotSet := hashesOf(got.GetEntries().Slice())
	var wantL []string
	for h := range want {
		wantL = append(wantL, h)
	}
	if !eqStrings(sortedStrings(gotSet), sortedStrings(wantL)) {
		kind := "wrong-entries"
		if len(gotSet) > len(wantL) {
			kind = "too-many"
		} else if len(gotSet) < len(wantL) {
			kind = "too-few"
		}
		cls := "n-positive"
		if lc.N == 0 {
			cls = "n-zero"
		}
		p.Violate("load", "C10:limited:"+lc.Loader+":"+cls+":"+kind, fmt.Sprintf("%s: loaded %s, expected %s", desc, short(w, sortedStrings(gotSet)), short(w, sortedStrings(wantL))), lc)
		return
	}
	p.Add(0, 0, 1, 0)
	if lc.N > 0 && lc.N < len(orig) {
		p.Nontriv(fmt.Sprint(orig, lc.Loader, lc.N))
	}
}

func loadProbe(p *run.Part, prop string, cfg *seqx.Config, seen *sync.Map, limited bool, concs []int) func(w *seqx.World, c seqx.Case) {
	return func(w *seqx.World, c seqx.Case) {
		for r := range w.Logs {
			if len(w.ML[r].Set) == 0 {
				continue
			}
			key := cfg.Name + fmt.Sprint(w.ML[r].UIDs(), hashesOf(w.Logs[r].Heads().Slice()))
			if _, dup := seen.LoadOrStore(key, true); dup {
				continue
			}
			for _, ld := range []string{"multihash", "entryhash", "json", "entry", "entry-roomy"} {
				for _, cc := range concs {
					if !limited {
						loadOne(p, prop, cfg, loadCase{Config: cfg.Name, Path: c.Path, Replica: r, Loader: ld, Conc: cc, N: -1})
						continue
					}
					for n := 0; n <= len(w.ML[r].Set)+1; n++ {
						loadOne(p, prop, cfg, loadCase{Config: cfg.Name, Path: c.Path, Replica: r, Loader: ld, Conc: cc, N: n})
					}
				}
			}
		}
	}
}

func loadSearches(prop string, limited bool) func(p *run.Part, tier string) []*seqx.Search {
	return func(p *run.Part, tier string) []*seqx.Search {
		depth := 4
		if tier == "thorough" {
			depth = 5
		}
		if !limited {
			depth += 2 // rebuilds are cheap: the unbounded check follows the BFS as deep as C02 does (two seeded index regressions need six operations)
		}
		dl := Budget(tier)
		seen := &sync.Map{}
		mk := func(cfg *seqx.Config, prefix string, d int) *seqx.Search {
			return &seqx.Search{Part: p, Check: "load", Cfg: cfg, Alphabet: Alphabet(3, false), Depth: d, Prefix: Prefixes[prefix], PrefixID: prefix,
				Deadline: dl, OnState: loadProbe(p, prop, cfg, seen, limited, []int{1, 3})}
		}
		ss := []*seqx.Search{mk(CfgDef3, "", depth), mk(CfgHash3, "", 4), mk(CfgClk3, "", 4), mk(CfgGap3, "", 4)}
		if !limited {
			// a configured ordering that is visibly not the default one: the rebuilt log must use it too
			ss = append(ss, mk(CfgFww3, "", 4))
		}
		em := mk(CfgDef3, "", 4)
		em.Alphabet = append(WithEmpty(Alphabet(3, false)), seqx.Op{K: "appbin", A: 2}) // empty and binary payloads
		ss = append(ss, em)
		if !limited {
			ss = append(ss, mk(CfgDef3, "+fork12", 1), mk(CfgDef3, "+chain20", 1))
		}
		return ss
	}
}

func loadReplay(prop string) func(p *run.Part, check string, raw []byte) {
	return func(p *run.Part, check string, raw []byte) {
		var lc loadCase
		if err := jsonUnmarshal(raw, &lc); err != nil {
			panic(err)
		}
		cfg := Configs[lc.Config]
		path := lc.Path
		loadOne(p, prop, cfg, loadCase{Config: lc.Config, Path: path, Replica: lc.Replica, Loader: lc.Loader, Conc: lc.Conc, N: lc.N})
	}
}

func init() {
	register(&Check{ID: "C09", Run: func(p *run.Part, tier string) {
		p.Rule = "cases = (replica state of the BFS, loader, concurrency); non-trivial = distinct multi-headed states"
		p.Assume("BFS depth as in extra.searches; loads of this part run on the Go scheduler at concurrency 1 and 3 (one schedule each); the entry-hash loader is judged on single-headed states only")
		runSearches(p, loadSearches("C09", false)(p, tier))
		p.Sample(4, loadCase{Config: "def3", Path: seqx.Shapes["diamond"], Replica: 0, Loader: "json", Conc: 3, N: -1})
	}, Replay: loadReplay("C09")})
	register(&Check{ID: "C10", Run: func(p *run.Part, tier string) {
		p.Rule = "cases = (replica state of the BFS, loader, concurrency, limit 0..size+1); non-trivial = distinct cases with 0 < n < size"
		p.Assume("BFS depth as in extra.searches; strict orderings only; loads of this part run on the Go scheduler at concurrency 1 and 3")
		runSearches(p, loadSearches("C10", true)(p, tier))
		p.Sample(4, loadCase{Config: "def3", Path: seqx.Shapes["fork"], Replica: 0, Loader: "multihash", Conc: 1, N: 2})
	}, Replay: loadReplay("C10")})
}
