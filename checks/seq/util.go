package seq

import "encoding/json"

func jsonUnmarshal(b []byte, v interface{}) error { return json.Unmarshal(b, v) }
