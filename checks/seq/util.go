package seq

import (
	"encoding/json"

	"github.com/ipfs/go-cid"
	format "github.com/ipfs/go-ipld-format"

	"verif/engine/store"
)

func jsonUnmarshal(b []byte, v interface{}) error { return json.Unmarshal(b, v) }

func decodeBlock(c cid.Cid, raw []byte) (format.Node, error) { return store.Decode(c, raw) }
