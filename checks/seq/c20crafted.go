package seq

import (
	"crypto/sha256"
	"encoding/hex"
	"fmt"
	"sync"

	dsec "github.com/decred/dcrd/dcrec/secp256k1/v4"
	ds "github.com/ipfs/go-datastore"

	"verif/engine/run"
	"verif/engine/world"
)

// C20, keys of every encoding shape. Keys made by CreateKey are random, so a key whose public
// coordinates or private scalar start with zero bytes (where fixed-width and minimal big-integer
// encodings differ) turns up once in a few hundred identities. Here the datastore is seeded with
// keys searched deterministically (SHA-256 counter) for each shape, for both roles (the key stored
// under the user id, whose public key is the identity id; the key stored under that id, which
// signs), and the identity is created, re-created on the other instance, after eviction and after
// re-opening. The published id and key are compared with an independent implementation of the
// curve (decred secp256k1; the repository uses btcec), in addition to every oracle of checkIdentity.

type craftedKey struct {
	priv         []byte
	compressed   string // hex
	uncompressed string // hex
}

var (
	craftedMu    sync.Mutex
	craftedCache = map[string]*craftedKey{}
)

func shapeOK(shape string, priv, u []byte) bool {
	switch shape {
	case "even-y":
		return u[64]&1 == 0 && u[1] != 0 && u[33] != 0 && priv[0] != 0
	case "odd-y":
		return u[64]&1 == 1 && u[1] != 0 && u[33] != 0 && priv[0] != 0
	case "x-leading-zero":
		return u[1] == 0
	case "y-leading-zero":
		return u[33] == 0
	case "scalar-leading-zero":
		return priv[0] == 0
	case "x-two-leading-zeros":
		return u[1] == 0 && u[2] == 0
	case "y-two-leading-zeros":
		return u[33] == 0 && u[34] == 0
	case "x-trailing-zero":
		return u[32] == 0
	}
	panic("shape " + shape)
}

func craft(shape, role string) *craftedKey {
	craftedMu.Lock()
	defer craftedMu.Unlock()
	if k, ok := craftedCache[shape+"/"+role]; ok {
		return k
	}
	for n := 0; ; n++ {
		h := sha256.Sum256([]byte(fmt.Sprintf("verif-c20-%s-%s-%d", shape, role, n)))
		priv := h[:]
		if shape == "scalar-leading-zero" {
			priv[0] = 0
		}
		sk := dsec.PrivKeyFromBytes(priv)
		u := sk.PubKey().SerializeUncompressed()
		if !shapeOK(shape, priv, u) {
			continue
		}
		k := &craftedKey{priv: append([]byte{}, priv...), compressed: hex.EncodeToString(sk.PubKey().SerializeCompressed()), uncompressed: hex.EncodeToString(u)}
		craftedCache[shape+"/"+role] = k
		return k
	}
}

// seed stores an id key and a signing key of the given shapes for id "z".
func (w *ksWorld) seed(idShape, signShape string) {
	idk, sgk := craft(idShape, "id"), craft(signShape, "sign")
	if err := w.d.Put(world.Ctx, ds.NewKey("z"), idk.priv); err != nil {
		panic(err)
	}
	if err := w.d.Put(world.Ctx, ds.NewKey(idk.compressed), sgk.priv); err != nil {
		panic(err)
	}
	w.created["z"] = idk.priv
	w.created[idk.compressed] = sgk.priv
	if w.expect == nil {
		w.expect = map[string][2]string{}
	}
	w.expect["z"] = [2]string{idk.compressed, sgk.uncompressed}
}

func c20Crafted(p *run.Part, tier string) {
	shapes := []string{"even-y", "odd-y", "x-leading-zero", "y-leading-zero", "scalar-leading-zero", "x-trailing-zero"}
	if tier == "thorough" {
		shapes = append(shapes, "x-two-leading-zeros", "y-two-leading-zeros")
	}
	paths := [][]ksOp{
		{{K: "ident", I: 0, ID: "z"}, {K: "ident", I: 1, ID: "z"}},
		{{K: "has", I: 0, ID: "z"}, {K: "get", I: 1, ID: "z"}, {K: "ident", I: 1, ID: "z"}, {K: "fill", I: 1}, {K: "ident", I: 1, ID: "z"}, {K: "reopen", I: 0}, {K: "ident", I: 0, ID: "z"}},
	}
	type job struct {
		a, b string
		path []ksOp
	}
	var jobs []job
	for _, a := range shapes {
		for _, b := range shapes {
			craft(a, "id")
			craft(b, "sign")
			for _, path := range paths {
				jobs = append(jobs, job{a, b, path})
			}
		}
	}
	parallelFor(len(jobs), func(i int) {
		j := jobs[i]
		ksReplay(p, ksCase{Path: j.path, Seed: []string{j.a, j.b}})
	})
	n := 0
	for _, j := range jobs {
		n += len(j.path)
		p.Nontriv("seeded:" + j.a + "/" + j.b)
	}
	p.Add(int64(len(jobs)), int64(n), 0, int64(n))
	p.SetExtra("crafted_key_shapes", shapes)
	p.Sample(4, ksCase{Path: paths[1], Seed: []string{"x-leading-zero", "scalar-leading-zero"}})
}
