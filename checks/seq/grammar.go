package seq

import (
	"bytes"
	"fmt"
	"strings"

	"berty.tech/go-ipfs-log/entry"
	"berty.tech/go-ipfs-log/iface"
	"github.com/ipfs/go-cid"

	"verif/engine/store"
	"verif/engine/world"
)

// The bounded input grammar shared by the Engine C checks (C07, C08, C18).

type entrySpec struct {
	Payload []byte `json:"payload"`
	Next    []int  `json:"next"` // indices into linkPool
	Refs    []int  `json:"refs"`
	Time    int    `json:"time"`
	Writer  int    `json:"writer"`
	LogID   string `json:"logid"`
}

func (s entrySpec) String() string {
	return fmt.Sprintf("{payload=%q next=%v refs=%v time=%d writer=%d id=%q}", s.Payload, s.Next, s.Refs, s.Time, s.Writer, s.LogID)
}

var linkPool []cid.Cid

func grammarInit() {
	if linkPool != nil {
		return
	}
	for i := 0; i < 3; i++ {
		c, _ := cid.NewPrefixV1(cid.DagCBOR, 0x12).Sum([]byte(fmt.Sprintf("link%d", i)))
		linkPool = append(linkPool, c)
	}
	c0, _ := cid.NewPrefixV0(0x12).Sum([]byte("link-v0"))
	linkPool = append(linkPool, c0) // index 3: a CIDv0 (dag-pb)
	for i := 4; i < 14; i++ {       // indices 4..13: ten more, for entries with many predecessors
		c, _ := cid.NewPrefixV1(cid.DagCBOR, 0x12).Sum([]byte(fmt.Sprintf("link%d", i)))
		linkPool = append(linkPool, c)
	}
}

func linksOf(ix []int) []cid.Cid {
	out := []cid.Cid{}
	for _, i := range ix {
		out = append(out, linkPool[i])
	}
	return out
}

// payloadAlphabet: empty, ASCII, multi-byte UTF-8, JSON-special, NUL, every single byte,
// 2-byte combinations over a set of boundary bytes, a 300-byte string.
func payloadAlphabet(full bool) [][]byte {
	ps := [][]byte{[]byte(""), []byte("a"), []byte("hello"), []byte("é"), []byte("日本"), []byte(`"\<>&`), {0}, []byte("a\x00b"),
		[]byte("{\"k\":1}"), []byte(strings.Repeat("0123456789", 30))}
	for b := 0; b < 256; b++ {
		ps = append(ps, []byte{byte(b)})
	}
	bs := []byte{0x00, 0x41, 0x7f, 0x80, 0xc3, 0xfe, 0xff}
	for _, x := range bs {
		for _, y := range bs {
			ps = append(ps, []byte{x, y})
		}
	}
	// lengths at which the CBOR header of a byte string (and the JSON/base64 forms) change size
	for _, n := range []int{23, 24, 255, 256} {
		ps = append(ps, bytes.Repeat([]byte{'x'}, n))
	}
	if full {
		ps = append(ps, []byte("\xe2\x82"), []byte("\xe2\x82\xac"), []byte("\xed\xa0\x80"), []byte("\xf0\x9f\x98\x80"), []byte("a\xffb"))
		for _, n := range []int{25, 257, 65535, 65536, 65537} {
			ps = append(ps, bytes.Repeat([]byte{'y'}, n))
		}
		// every 2-byte string over sixteen boundary bytes, every 3-byte string over five
		b16 := []byte{0x00, 0x01, 0x0a, 0x1f, 0x20, 0x22, 0x5c, 0x7f, 0x80, 0xbf, 0xc2, 0xe0, 0xed, 0xf4, 0xfe, 0xff}
		for _, x := range b16 {
			for _, y := range b16 {
				ps = append(ps, []byte{x, y})
			}
		}
		b5 := []byte{0x00, 0x41, 0x80, 0xe2, 0xff}
		for _, x := range b5 {
			for _, y := range b5 {
				for _, z := range b5 {
					ps = append(ps, []byte{x, y, z})
				}
			}
		}
	}
	return ps
}

// clock times at the boundaries of the integer encodings (CBOR head sizes, int32, float64 exactness, int64), and negative ones
var clockGrid = []int{0, 1, 2, 23, 24, 255, 256, 65535, 65536, 1<<31 - 1, 1 << 31, 1<<32 - 1, 1 << 32, 1 << 53, 1<<53 + 1, int(^uint(0) >> 1), -1, -1 << 63}

// linkLists: all lists over pool indices {0,1,3} of length <= maxLen (duplicates and permutations included).
func linkLists(maxLen int) [][]int {
	pool := []int{0, 1, 3}
	out := [][]int{{}}
	prev := [][]int{{}}
	for l := 1; l <= maxLen; l++ {
		var cur [][]int
		for _, p := range prev {
			for _, x := range pool {
				cur = append(cur, append(append([]int{}, p...), x))
			}
		}
		out = append(out, cur...)
		prev = cur
	}
	return out
}

func grammar(tier string) []entrySpec {
	grammarInit()
	var g []entrySpec
	full := tier == "thorough"
	for _, p := range payloadAlphabet(full) {
		g = append(g, entrySpec{Payload: p, Time: 1, Writer: 0, LogID: "X", Next: []int{}, Refs: []int{}})
	}
	ll := linkLists(2)
	if full {
		ll = linkLists(3)
		// four predecessors (with duplicates and every order), no references
		for _, n := range linkLists(4) {
			if len(n) == 4 {
				g = append(g, entrySpec{Payload: []byte("hello"), Time: 5, Writer: 1, LogID: "X", Next: n, Refs: []int{}})
			}
		}
	}
	for _, n := range ll {
		for _, r := range ll {
			if !full && len(n)+len(r) > 3 {
				continue
			}
			g = append(g, entrySpec{Payload: []byte("hello"), Time: 5, Writer: 0, LogID: "X", Next: n, Refs: r})
		}
	}
	for _, p := range [][]byte{[]byte(""), []byte("a"), {0xff, 0x41}} {
		for _, sh := range [][2][]int{{{}, {}}, {{0}, {1}}, {{3, 0}, {}}} {
			for _, t := range clockGrid {
				for w := 0; w < 2; w++ {
					g = append(g, entrySpec{Payload: p, Time: t, Writer: w, LogID: "X", Next: sh[0], Refs: sh[1]})
				}
			}
		}
	}
	// many predecessors (a log with many concurrent heads) with and without references: 5, 6, 8 and 9 distinct links
	for _, k := range []int{5, 6, 8, 9} {
		var n []int
		for i := 0; i < k; i++ {
			n = append(n, 4+i)
		}
		for _, r := range [][]int{{}, {0}, {0, 1}, {0, 1, 3, 13}} {
			g = append(g, entrySpec{Payload: []byte("hello"), Time: 7, Writer: 1, LogID: "X", Next: n, Refs: r})
		}
	}
	for _, id := range []string{"A", "longer-log-id/with/slashes", "日本"} {
		g = append(g, entrySpec{Payload: []byte("hello"), Time: 3, Writer: 1, LogID: id, Next: []int{0}, Refs: []int{}})
	}
	return g
}

// build really creates (signs and stores) the entry of a spec with the given codec.
func (s entrySpec) build(st *store.Store, io iface.IO) (iface.IPFSLogEntry, error) {
	id := world.IDs[s.Writer]
	return entry.CreateEntryWithIO(world.Ctx, st, id, &entry.Entry{
		LogID: s.LogID, Payload: s.Payload, Next: linksOf(s.Next), Refs: linksOf(s.Refs),
		Clock: entry.NewLamportClock(id.PublicKey, s.Time),
	}, nil, io)
}
