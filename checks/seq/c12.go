package seq

import (
	"berty.tech/go-ipfs-log/enc"
	"bytes"
	"crypto/rand"
	"crypto/sha256"
	"encoding/base64"
	"encoding/hex"
	"encoding/json"
	"fmt"
	"github.com/libp2p/go-libp2p/core/crypto"
	mh "github.com/multiformats/go-multihash"
	"sort"
	"strings"
	"sync"

	ipfslog "berty.tech/go-ipfs-log"
	"berty.tech/go-ipfs-log/entry"
	"berty.tech/go-ipfs-log/entry/sorting"
	"berty.tech/go-ipfs-log/iface"
	"berty.tech/go-ipfs-log/io/jsonable"
	"berty.tech/go-ipfs-log/io/pb"
	"github.com/ipfs/go-cid"
	dag "github.com/ipfs/go-merkledag"

	"verif/engine/run"
	"verif/engine/store"
	"verif/engine/world"
)

// C12 — untrusted blocks and manifests cannot crash the process.
//
// Decoders: every single and every pair of field faults (field x {absent, null, ints, texts,
// bytes, lists, maps, links, malformed links, float, bool}) on real entry and manifest blocks
// (top level, clock.*, identity.*, identity.signatures.*), every proper prefix of each real
// block and every single-byte substitution at every offset with 12 boundary values, and the
// JSON fault grid for the legacy codec. Oracle: the decoder returns an error, or an entry on
// which every accessor, comparison, conversion and verification (all codecs) returns
// normally. Placement: each malformed variant class is put at every position of small stored
// logs; all loaders must return without panicking and deliver the history that is reachable
// without passing through the bad block.

type fault struct {
	Path string `json:"path"`
	Val  string `json:"val"`
}

type c12Case struct {
	Kind   string  `json:"kind"` // cbor-grid | cbor-bytes | cbor-prefix | pb-grid | manifest-grid | place
	Base   string  `json:"base"`
	Faults []fault `json:"faults,omitempty"`
	Off    int     `json:"off,omitempty"`
	Byte   int     `json:"byte,omitempty"`
	Shape  string  `json:"shape,omitempty"`
	Pos    int     `json:"pos,omitempty"`
	Loader string  `json:"loader,omitempty"`
	Conc   int     `json:"conc,omitempty"`
}

func link42(c cid.Cid) cborTag { return cborTag{42, append([]byte{0}, c.Bytes()...)} }

var faultVals = []struct {
	name string
	v    interface{}
}{
	{"absent", absent{}}, {"null", nil}, {"int1", int64(1)}, {"neg", int64(-1)}, {"huge", int64(1) << 62}, {"text", "x"}, {"nonhex", "zz"},
	{"hexodd", "abc"}, {"bytes", []byte{1, 2}}, {"emptylist", []interface{}{}}, {"list1", []interface{}{int64(1)}}, {"map", map[string]interface{}{}},
	{"float", 1.5}, {"bool", true},
	// link-valued faults are filled in by init (they need a CID)
}

var c12Paths = []string{"v", "id", "key", "sig", "hash", "next", "refs", "clock", "payload", "identity", "enc_links", "enc_links_nonce",
	"clock.id", "clock.time", "identity.id", "identity.type", "identity.publicKey", "identity.signatures", "identity.signatures.id", "identity.signatures.publicKey"}

func faultValue(name string) interface{} {
	grammarInit()
	switch name {
	case "link":
		return link42(linkPool[0])
	case "badlink":
		return cborTag{42, linkPool[0].Bytes()} // no multibase prefix
	case "emptylink":
		return cborTag{42, []byte{}}
	case "linklist":
		return []interface{}{link42(linkPool[0])}
	case "badlinklist":
		return []interface{}{cborTag{42, []byte{0, 1, 2, 3}}}
	case "nulllist":
		return []interface{}{nil}
	case "textlist":
		return []interface{}{"x"}
	case "key-ed25519-envelope", "key-rsa-envelope", "key-ecdsa-envelope", "key-secp-envelope":
		// a well-formed public key of another algorithm (or of the right one) in libp2p's protobuf envelope, hex-encoded
		// like the genuine raw key: something a key parser with a fallback would accept
		return hex.EncodeToString(envelopedKey(name))
	case "tinylink", "tinylinklist", "tinylink0":
		// a valid identifier whose text form is shorter than any hash: an identity multihash over a few inline bytes
		// ("bafyqaapw" is 9 characters; code that abbreviates identifiers for messages assumes 46 or 59)
		inline := []byte{0xf6}
		if name == "tinylink0" {
			inline = []byte{}
		}
		h, err := mh.Sum(inline, mh.IDENTITY, -1)
		if err != nil {
			panic(err)
		}
		c := cid.NewCidV1(cid.DagCBOR, h)
		if name == "tinylinklist" {
			return []interface{}{link42(c)}
		}
		return link42(c)
	case "dupheads": // the genuine head listed twice
		c12Init()
		return []interface{}{link42(c12Head), link42(c12Head)}
	case "dupheads3": // ... and with its predecessor in between (never a base block's own identifier: an entry cannot name itself)
		c12Init()
		return []interface{}{link42(c12Head), link42(c12Mid), link42(c12Head)}
	case "headsplus": // the genuine head and its predecessor
		c12Init()
		return []interface{}{link42(c12Head), link42(c12Mid)}
	case "b64":
		return "AAAA"
	case "b64n24": // base64 of exactly 24 bytes (a well-sized secretbox nonce)
		return base64.StdEncoding.EncodeToString(make([]byte, 24))
	case "b64n23":
		return base64.StdEncoding.EncodeToString(make([]byte, 23))
	case "b64n25":
		return base64.StdEncoding.EncodeToString(make([]byte, 25))
	case "b64long": // base64 of 64 bytes
		return base64.StdEncoding.EncodeToString(bytes.Repeat([]byte{0xab}, 64))
	case "b64empty":
		return ""
	}
	for _, f := range faultVals {
		if f.name == name {
			return f.v
		}
	}
	panic("unknown fault value " + name)
}

func faultNames() []string {
	var n []string
	for _, f := range faultVals {
		n = append(n, f.name)
	}
	return append(n, "link", "badlink", "emptylink", "linklist", "badlinklist", "nulllist", "textlist", "b64", "b64n24", "b64n23", "b64n25", "b64long", "b64empty",
		"cut0", "cut1", "cut2", "cut3", "cutlast", "grow1", "dupheads", "dupheads3", "headsplus",
		"key-ed25519-envelope", "key-rsa-envelope", "key-ecdsa-envelope", "key-secp-envelope",
		"tinylink", "tinylinklist", "tinylink0")
}

// genericEntry mirrors the CBOR schema of a v2 entry as a generic value tree.
func genericEntry(e iface.IPFSLogEntry) map[string]interface{} {
	links := func(cs []cid.Cid) []interface{} {
		out := []interface{}{}
		for _, c := range cs {
			out = append(out, link42(c))
		}
		return out
	}
	m := map[string]interface{}{
		"v": int64(e.GetV()), "id": e.GetLogID(), "key": hex.EncodeToString(e.GetKey()), "sig": hex.EncodeToString(e.GetSig()), "hash": nil,
		"next": links(e.GetNext()), "refs": links(e.GetRefs()),
		"clock":   map[string]interface{}{"id": hex.EncodeToString(e.GetClock().GetID()), "time": int64(e.GetClock().GetTime())},
		"payload": string(e.GetPayload()),
	}
	if id := e.GetIdentity(); id != nil {
		m["identity"] = map[string]interface{}{"id": id.ID, "type": id.Type, "publicKey": hex.EncodeToString(id.PublicKey),
			"signatures": map[string]interface{}{"id": hex.EncodeToString(id.Signatures.ID), "publicKey": hex.EncodeToString(id.Signatures.PublicKey)}}
	}
	return m
}

type c12Base struct {
	name string
	tree map[string]interface{}
	raw  []byte
	c    cid.Cid
}

var c12Bases []c12Base
var c12Manifest c12Base

// c12Blocks: every block written while the bases were built (the manifest's log among them); c12Head: its head
var c12Blocks *store.Store
var c12Head, c12Mid cid.Cid

func c12Init() {
	if c12Bases != nil {
		return
	}
	grammarInit()
	st := store.New()
	io := defaultIO()
	mk := func(name string, s entrySpec) {
		e, err := s.build(st, io)
		if err != nil {
			panic(err)
		}
		raw, _ := st.Raw(e.GetHash())
		tree := genericEntry(e)
		if !bytes.Equal(cborEnc(tree), raw) {
			panic(fmt.Sprintf("c12: the generic model of base block %s does not re-encode to the stored bytes\n got %x\nwant %x", name, cborEnc(tree), raw))
		}
		c12Bases = append(c12Bases, c12Base{name, tree, raw, e.GetHash()})
	}
	mk("plain", entrySpec{Payload: []byte("hello"), Time: 1, Writer: 0, LogID: "X", Next: []int{}, Refs: []int{}})
	mk("linked", entrySpec{Payload: []byte("p\x00q"), Time: 7, Writer: 1, LogID: "X", Next: []int{0, 3}, Refs: []int{1}})
	l := world.NewLog(st, 0, nil)
	m0, err := l.Append(world.Ctx, []byte("m0"), nil)
	if err != nil {
		panic(err)
	}
	c12Mid = m0.GetHash()
	l.Append(world.Ctx, []byte("m1"), nil)
	mc, err := l.ToMultihash(world.Ctx)
	if err != nil {
		panic(err)
	}
	raw, _ := st.Raw(mc)
	hs := []interface{}{}
	for _, h := range l.ToJSONLog().Heads {
		hs = append(hs, link42(h))
	}
	tree := map[string]interface{}{"id": "X", "heads": hs}
	if !bytes.Equal(cborEnc(tree), raw) {
		panic("c12: manifest model does not re-encode")
	}
	c12Manifest = c12Base{"manifest", tree, raw, mc}
	c12Blocks = st
	c12Head = l.ToJSONLog().Heads[0]
}

func baseByName(n string) c12Base {
	c12Init()
	for _, b := range c12Bases {
		if b.name == n {
			return b
		}
	}
	if n == "manifest" {
		return c12Manifest
	}
	panic("no base " + n)
}

// exercise calls everything the statement lists on a decoded entry.
func exercise(e iface.IPFSLogEntry) {
	_ = e.Defined()
	_, _, _, _, _, _, _ = e.GetPayload(), e.GetLogID(), e.GetNext(), e.GetRefs(), e.GetV(), e.GetKey(), e.GetSig()
	_, _, _, _ = e.GetIdentity(), e.GetHash(), e.GetClock(), e.GetAdditionalData()
	if c := e.GetClock(); c != nil {
		_, _, _ = c.GetID(), c.GetTime(), c.Defined()
	}
	_ = e.IsValid()
	cp := e.Copy()
	_ = e.Equals(cp)
	_ = e.IsParent(cp)
	_ = cp.IsParent(e)
	prov := world.IDs[0].Provider
	_ = e.Verify(prov, defaultIO())
	_ = e.Verify(prov, linkKeyIO("K1"))
	pbio, _ := pb.IO(&entry.Entry{}, &entry.LamportClock{})
	_ = e.Verify(prov, pbio)
	_, _ = entry.ToHashable(e)
	_ = jsonable.ToJsonableEntry(e)
	for _, f := range []func(a, b iface.IPFSLogEntry) (int, error){sorting.Compare, sorting.LastWriteWins, sorting.FirstWriteWins, sorting.SortByEntryHash, sorting.NoZeroes(sorting.LastWriteWins)} {
		_, _ = f(e, cp)
		_, _ = f(cp, e)
	}
	_ = entry.Normalize(e, nil)
	_ = entry.FindChildren(e, []iface.IPFSLogEntry{cp})
	es := entry.NewOrderedMap()
	es.Set(e.GetHash().String(), e)
	st := store.New()
	if l, err := ipfslog.NewLog(st, world.IDs[0], &ipfslog.LogOptions{ID: "X", Entries: es}); err == nil {
		_ = l.Values()
		_ = l.Heads()
		_ = l.ToSnapshot()
		_ = l.ToString(nil)
		_ = l.ToJSONLog()
		dst := world.NewLog(st, 1, nil)
		_, _ = dst.Join(l, -1) // verification workers run on their own goroutines: a panic there kills the process (journalled)
	}
	_, _ = entry.ToMultihashWithIO(world.Ctx, e, st, nil, defaultIO())
}

func siteKey(stack string) string { return run.PanicSite(stack) }

// decodeAndExercise feeds raw block bytes through the block decoder and the entry decoder.
func decodeAndExercise(p *run.Part, cc c12Case, c cid.Cid, raw []byte) {
	p.Add(0, 1, 0, 1)
	var nd interface{ RawData() []byte }
	node, err := store.Decode(c, raw)
	if err != nil {
		p.IncExtra("rejected_by_block_decoder", 1)
		p.Add(0, 0, 1, 0)
		return
	}
	nd = node
	_ = nd
	io := defaultIO()
	var e iface.IPFSLogEntry
	pv, stack := run.Safe(func() { e, err = io.DecodeRawEntry(node, c, world.IDs[0].Provider) })
	if pv != nil {
		p.Violate("decode", "C12:decode-panic:"+siteKey(stack), fmt.Sprintf("DecodeRawEntry panicked on %s: %v at %s", describeCase(cc), pv, stack), cc)
		return
	}
	// the link-key reader must be as safe as the default one
	pv, stack = run.Safe(func() { _, _ = linkKeyIO("K1").DecodeRawEntry(node, c, world.IDs[0].Provider) })
	if pv != nil {
		p.Violate("decode", "C12:decode-panic:linkkey:"+siteKey(stack), fmt.Sprintf("link-key DecodeRawEntry panicked on %s: %v at %s", describeCase(cc), pv, stack), cc)
		return
	}
	if err != nil {
		p.IncExtra("rejected_by_entry_decoder", 1)
		p.Add(0, 0, 1, 0)
		return
	}
	if e == nil {
		p.Violate("decode", "C12:nil-entry-nil-error", "DecodeRawEntry returned neither an entry nor an error on "+describeCase(cc), cc)
		return
	}
	p.IncExtra("decoded_to_an_entry", 1)
	pv, stack = run.Safe(func() { exercise(e) })
	if pv != nil {
		p.Violate("decode", "C12:use-panic:"+siteKey(stack), fmt.Sprintf("an operation on the entry decoded from %s panicked: %v at %s", describeCase(cc), pv, stack), cc)
		return
	}
	p.Add(0, 0, 1, 0)
	p.Nontriv(describeCase(cc))
}

func describeCase(cc c12Case) string {
	switch cc.Kind {
	case "cbor-grid", "manifest-grid", "pb-grid", "cbor-sealed":
		var fs []string
		for _, f := range cc.Faults {
			fs = append(fs, f.Path+"="+f.Val)
		}
		return fmt.Sprintf("%s block %q with %s", cc.Kind, cc.Base, strings.Join(fs, ", "))
	case "cbor-bytes":
		return fmt.Sprintf("block %q with byte %d set to %#02x", cc.Base, cc.Off, cc.Byte)
	case "cbor-prefix":
		return fmt.Sprintf("block %q truncated to %d bytes", cc.Base, cc.Off)
	}
	b, _ := json.Marshal(cc)
	return string(b)
}

func applyFaults(base map[string]interface{}, fs []fault) (map[string]interface{}, bool) {
	t := deepCopy(base).(map[string]interface{})
	for _, f := range fs {
		if d, ok := derivedFaults[f.Val]; ok {
			// a value derived from the genuine one: hex-text fields (keys, signatures, clock id) cut to their first
			// 0..3 bytes, without their last byte, or one byte longer. The first bytes of a genuine value are what
			// a length or framing check looks at ("30" is a DER signature's tag, "04" an uncompressed key's).
			cur, isText := getPath(t, strings.Split(f.Path, ".")).(string)
			if !isText || len(cur) < 8 || len(cur)%2 != 0 {
				return nil, false
			}
			if !setPath(t, strings.Split(f.Path, "."), d(cur)) {
				return nil, false
			}
			continue
		}
		if !setPath(t, strings.Split(f.Path, "."), faultValue(f.Val)) {
			return nil, false
		}
	}
	return t, true
}

var derivedFaults = map[string]func(hexText string) string{
	"cut0":    func(h string) string { return "" },
	"cut1":    func(h string) string { return h[:2] },
	"cut2":    func(h string) string { return h[:4] },
	"cut3":    func(h string) string { return h[:6] },
	"cutlast": func(h string) string { return h[:len(h)-2] },
	"grow1":   func(h string) string { return h + "00" },
}

func getPath(root map[string]interface{}, path []string) interface{} {
	var cur interface{} = root
	for _, k := range path {
		m, ok := cur.(map[string]interface{})
		if !ok {
			return nil
		}
		cur = m[k]
	}
	return cur
}

func c12One(p *run.Part, cc c12Case) {
	c12Init()
	switch cc.Kind {
	case "cbor-grid":
		b := baseByName(cc.Base)
		t, ok := applyFaults(b.tree, cc.Faults)
		if !ok {
			return
		}
		decodeAndExercise(p, cc, b.c, cborEnc(t))
	case "cbor-sealed":
		// the encrypted-links field holds, validly sealed with the reader's key, a structure with faults in it:
		// {"next": fault 0, "refs": fault 1}, or (path "inner") a value that is not a map at all
		b := baseByName(cc.Base)
		t := deepCopy(b.tree).(map[string]interface{})
		var inner interface{} = map[string]interface{}{}
		for _, f := range cc.Faults {
			if f.Path == "inner" {
				inner = faultValue(f.Val)
				continue
			}
			if f.Val != "absent" {
				inner.(map[string]interface{})[f.Path] = faultValue(f.Val)
			}
		}
		k := sha256.Sum256([]byte("K1"))
		sk, err := enc.NewSecretbox(k[:])
		if err != nil {
			panic(err)
		}
		nonce := bytes.Repeat([]byte{7}, 24)
		sealed, err := sk.SealWithNonce(cborEnc(inner), nonce)
		if err != nil {
			panic(err)
		}
		t["enc_links"] = base64.StdEncoding.EncodeToString(sealed)
		t["enc_links_nonce"] = base64.StdEncoding.EncodeToString(nonce)
		t["next"] = []interface{}{}
		t["refs"] = []interface{}{}
		decodeAndExercise(p, cc, b.c, cborEnc(t))
	case "cbor-bytes":
		b := baseByName(cc.Base)
		raw := append([]byte{}, b.raw...)
		raw[cc.Off] = byte(cc.Byte)
		if b.name == "manifest" {
			manifestDecode(p, cc, b.c, raw)
		} else {
			decodeAndExercise(p, cc, b.c, raw)
		}
	case "cbor-prefix":
		b := baseByName(cc.Base)
		if b.name == "manifest" {
			manifestDecode(p, cc, b.c, b.raw[:cc.Off])
		} else {
			decodeAndExercise(p, cc, b.c, b.raw[:cc.Off])
		}
	case "manifest-grid":
		t, ok := applyFaults(c12Manifest.tree, cc.Faults)
		if !ok {
			return
		}
		manifestDecode(p, cc, c12Manifest.c, cborEnc(t))
	case "pb-grid":
		pbOne(p, cc)
	case "place":
		placeOne(p, cc)
	}
}

func manifestDecode(p *run.Part, cc c12Case, c cid.Cid, raw []byte) {
	p.Add(0, 1, 0, 1)
	node, err := store.Decode(c, raw)
	if err != nil {
		p.IncExtra("rejected_by_block_decoder", 1)
		p.Add(0, 0, 1, 0)
		return
	}
	var jl *iface.JSONLog
	pv, stack := run.Safe(func() { jl, err = defaultIO().DecodeRawJSONLog(node) })
	if pv != nil {
		p.Violate("decode", "C12:manifest-decode-panic:"+siteKey(stack), fmt.Sprintf("DecodeRawJSONLog panicked on %s: %v at %s", describeCase(cc), pv, stack), cc)
		return
	}
	if err == nil && jl != nil {
		// loading through the manifest must be safe as well
		// the store holds the blocks the genuine manifest leads to: heads that exist are really loaded
		st := store.New()
		st.PutRaw(c, raw)
		for _, bc := range c12Blocks.Adds {
			if b, ok := c12Blocks.Raw(bc); ok && !bc.Equals(c) {
				st.PutRaw(bc, b)
			}
		}
		pv, stack = run.Safe(func() {
			l, lerr := ipfslog.NewFromMultihash(world.Ctx, st, world.IDs[0], c, &ipfslog.LogOptions{}, &ipfslog.FetchOptions{})
			if lerr == nil {
				_ = l.Values()
			}
		})
		if pv != nil {
			p.Violate("decode", "C12:manifest-load-panic:"+siteKey(stack), fmt.Sprintf("loading a log from %s panicked: %v at %s", describeCase(cc), pv, stack), cc)
			return
		}
		p.Nontriv(describeCase(cc))
	}
	p.Add(0, 0, 1, 0)
}

// ---- legacy (pb/JSON) grid ----

var pbPaths = []string{"hash", "id", "payload", "next", "v", "clock", "clock.id", "clock.time", "key", "sig"}
var pbVals = map[string]interface{}{"absent": absent{}, "null": nil, "int1": 1, "neg": -1, "text": "x", "nonhex": "zz", "emptylist": []interface{}{}, "map": map[string]interface{}{},
	"bool": true, "intlist": []interface{}{1}, "textlist": []interface{}{"notacid"}, "float": 1.5, "huge": 1e30}

func pbNames() []string {
	var n []string
	for k := range pbVals {
		n = append(n, k)
	}
	sort.Strings(n)
	return n
}

func pbBase() map[string]interface{} {
	return map[string]interface{}{"hash": nil, "id": "A", "payload": "hello", "next": []interface{}{"QmUKMoRrmsYAzQg1nQiD7Fzgpo24zXky7jVJNcZGiSAdhc"}, "v": 0,
		"clock": map[string]interface{}{"id": v0Key, "time": 0}, "key": v0Key, "sig": v0Sig}
}

func pbOne(p *run.Part, cc c12Case) {
	t := deepCopy(pbBase()).(map[string]interface{})
	for _, f := range cc.Faults {
		v := pbVals[f.Val]
		if !setPath(t, strings.Split(f.Path, "."), v) {
			return
		}
	}
	payload, err := json.Marshal(t)
	if err != nil {
		return
	}
	p.Add(0, 1, 0, 1)
	node := &dag.ProtoNode{}
	node.SetData(payload)
	pbio, _ := pb.IO(&entry.Entry{}, &entry.LamportClock{})
	var e iface.IPFSLogEntry
	pv, stack := run.Safe(func() { e, err = pbio.DecodeRawEntry(node, node.Cid(), world.IDs[0].Provider) })
	if pv != nil {
		p.Violate("decode", "C12:pb-decode-panic:"+siteKey(stack), fmt.Sprintf("legacy DecodeRawEntry panicked on %s: %v at %s", describeCase(cc), pv, stack), cc)
		return
	}
	if err != nil || e == nil {
		p.Add(0, 0, 1, 0)
		return
	}
	pv, stack = run.Safe(func() { exercise(e) })
	if pv != nil {
		p.Violate("decode", "C12:pb-use-panic:"+siteKey(stack), fmt.Sprintf("an operation on the entry decoded from %s panicked: %v at %s", describeCase(cc), pv, stack), cc)
		return
	}
	p.Add(0, 0, 1, 0)
	p.Nontriv(describeCase(cc))
}

// ---- enumeration ----

func c12Cases(tier string) []c12Case {
	c12Init()
	var cs []c12Case
	names := faultNames()
	for _, b := range c12Bases {
		for _, pth := range c12Paths {
			for _, v := range names {
				cs = append(cs, c12Case{Kind: "cbor-grid", Base: b.name, Faults: []fault{{pth, v}}})
			}
		}
	}
	// pairs of faults on the linked base (quick: reduced value set for the second fault)
	pairVals := []string{"absent", "null", "int1", "text", "map", "emptylist", "badlink"}
	if tier == "thorough" {
		pairVals = names
	}
	for i, p1 := range c12Paths {
		for _, p2 := range c12Paths[i+1:] {
			if strings.HasPrefix(p2, p1+".") {
				continue // the second fault would address inside a replaced value
			}
			for _, v1 := range pairVals {
				for _, v2 := range pairVals {
					cs = append(cs, c12Case{Kind: "cbor-grid", Base: "linked", Faults: []fault{{p1, v1}, {p2, v2}}})
				}
			}
		}
	}
	// the encrypted-links pair: every combination of base64-shaped values (lengths around the nonce size)
	b64s := []string{"b64", "b64n23", "b64n24", "b64n25", "b64long", "b64empty", "text", "absent"}
	for _, b := range c12Bases {
		for _, v1 := range b64s {
			for _, v2 := range b64s {
				cs = append(cs, c12Case{Kind: "cbor-grid", Base: b.name, Faults: []fault{{"enc_links", v1}, {"enc_links_nonce", v2}}})
			}
		}
	}
	// faults inside a validly sealed encrypted-links field (the reader holds the key): every pair over the link-shaped values
	inner := []string{"absent", "null", "int1", "text", "bytes", "emptylist", "list1", "map", "link", "badlink", "emptylink", "linklist", "badlinklist", "nulllist", "textlist"}
	for _, v1 := range inner {
		for _, v2 := range inner {
			cs = append(cs, c12Case{Kind: "cbor-sealed", Base: "linked", Faults: []fault{{"next", v1}, {"refs", v2}}})
		}
	}
	for _, v := range []string{"null", "int1", "text", "bytes", "emptylist", "linklist", "link", "emptylink"} {
		cs = append(cs, c12Case{Kind: "cbor-sealed", Base: "linked", Faults: []fault{{"inner", v}}})
	}
	subst := []int{0x00, 0x1f, 0x40, 0x5f, 0x7f, 0x80, 0x9f, 0xa0, 0xbf, 0xd8, 0xf6, 0xff}
	for _, b := range append(append([]c12Base{}, c12Bases...), c12Manifest) {
		for off := 0; off < len(b.raw); off++ {
			cs = append(cs, c12Case{Kind: "cbor-prefix", Base: b.name, Off: off})
			for _, v := range subst {
				if byte(v) != b.raw[off] {
					cs = append(cs, c12Case{Kind: "cbor-bytes", Base: b.name, Off: off, Byte: v})
				}
			}
		}
	}
	for _, pth := range []string{"id", "heads"} {
		for _, v := range names {
			cs = append(cs, c12Case{Kind: "manifest-grid", Base: "manifest", Faults: []fault{{pth, v}}})
			for _, v2 := range names {
				if pth == "id" {
					cs = append(cs, c12Case{Kind: "manifest-grid", Base: "manifest", Faults: []fault{{"id", v}, {"heads", v2}}})
				}
			}
		}
	}
	pn := pbNames()
	for i, p1 := range pbPaths {
		for _, v1 := range pn {
			cs = append(cs, c12Case{Kind: "pb-grid", Base: "v0", Faults: []fault{{p1, v1}}})
			for _, p2 := range pbPaths[i+1:] {
				if strings.HasPrefix(p2, p1+".") {
					continue
				}
				for _, v2 := range pn {
					cs = append(cs, c12Case{Kind: "pb-grid", Base: "v0", Faults: []fault{{p1, v1}, {p2, v2}}})
				}
			}
		}
	}
	return cs
}

func init() {
	register(&Check{ID: "C12", Run: func(p *run.Part, tier string) {
		p.Rule = "cases = (base block, fault set) over the field x value grid (all singles, all pairs), every truncation and every single-byte substitution of each real block, the legacy JSON grid, and placements (shape, position, variant, loader, concurrency); non-trivial = distinct cases that decode to an entry or manifest (so that the accessors are actually exercised)"
		p.Assume("'all byte strings' is covered as the structured fault grid plus the one-byte/truncation neighbourhood of real blocks, not the whole space; placement loads run free on the Go scheduler (their outcome must not depend on it)")
		cs := c12Cases(tier)
		dl := Budget(tier)
		expired := false
		j := run.TheJournal
		seqxParallel(len(cs), func(i, slot int) {
			if dl.Expired() {
				expired = true
				return
			}
			if j.Skip(cs[i]) {
				return
			}
			j.Begin(slot, "C12", "decode", cs[i])
			c12One(p, cs[i])
			j.End(slot)
		})
		pl := placeCases(tier)
		seqxParallel(len(pl), func(i, slot int) {
			if dl.Expired() {
				expired = true
				return
			}
			if j.Skip(pl[i]) {
				return
			}
			j.Begin(slot, "C12", "place", pl[i])
			c12One(p, pl[i])
			j.End(slot)
		})
		if expired {
			p.Inexhaustive("deadline")
		}
		p.Add(int64(len(cs)+len(pl)), 0, 0, 0)
		p.SetExtra("decoder_cases", len(cs))
		p.SetExtra("placement_cases", len(pl))
		p.Sample(6, cs[7])
		p.Sample(6, cs[len(cs)/2])
		p.Sample(6, cs[len(cs)-1])
		if len(pl) > 0 {
			p.Sample(6, pl[len(pl)/2])
		}
	}, Replay: func(p *run.Part, check string, raw []byte) {
		var c c12Case
		if err := jsonUnmarshal(raw, &c); err != nil {
			panic(err)
		}
		c12One(p, c)
	}})
}

var envelopeCache sync.Map

// envelopedKey: a deterministic public key of the named algorithm, marshalled with libp2p's key envelope.
func envelopedKey(name string) []byte {
	if v, ok := envelopeCache.Load(name); ok {
		return v.([]byte)
	}
	seed := bytes.NewReader(bytes.Repeat([]byte(name), 200))
	var pub crypto.PubKey
	var err error
	switch name {
	case "key-ed25519-envelope":
		_, pub, err = crypto.GenerateEd25519Key(seed)
	case "key-rsa-envelope":
		_, pub, err = crypto.GenerateKeyPairWithReader(crypto.RSA, 2048, rand.Reader)
	case "key-ecdsa-envelope":
		_, pub, err = crypto.GenerateECDSAKeyPair(rand.Reader)
	default:
		_, pub, err = crypto.GenerateSecp256k1Key(rand.Reader)
	}
	if err != nil {
		panic(err)
	}
	b, err := crypto.MarshalPublicKey(pub)
	if err != nil {
		panic(err)
	}
	envelopeCache.Store(name, b)
	return b
}
