package seq

import (
	"fmt"
	"sort"

	ipfslog "berty.tech/go-ipfs-log"
	"berty.tech/go-ipfs-log/accesscontroller"
	"berty.tech/go-ipfs-log/entry"
	"berty.tech/go-ipfs-log/iface"
	"berty.tech/go-ipfs-log/io/cbor"
	"github.com/ipfs/go-cid"

	"verif/engine/run"
	"verif/engine/seqx"
	"verif/engine/store"
	"verif/engine/world"
)

// C17 — the block store is causally closed at every instant (crash safety).
//
// Histories of append / append+pin / merge / publish on replicas sharing one store.
//  (1) at the instant of every block write (hook inside the store double) every link of the
//      written block - predecessors and references of an entry, heads of a manifest - is
//      already stored: every prefix of the write log is closed;
//  (2) every identifier the library returned (entry hash from Append, manifest from
//      ToMultihash) is loaded from the store prefix that existed when it was returned and must
//      give exactly the model state of that moment (entry set, heads);
//  (3) crash injection: for every write k of the last operation the k-th Add fails (and every
//      later one: the process is dead); an operation that nevertheless reports success must
//      have returned something loadable from the store as it stands, and the store stays closed.

func defaultIO() iface.IO {
	io, err := cbor.IO(&entry.Entry{}, &entry.LamportClock{})
	if err != nil {
		panic(err)
	}
	return io
}

// blockLinks returns the CIDs a stored block refers to (entry: next+refs; manifest: heads).
func blockLinks(st *store.Store, c cid.Cid) ([]cid.Cid, string) {
	raw, ok := st.Raw(c)
	if !ok {
		return nil, "missing"
	}
	nd, err := store.Decode(c, raw)
	if err != nil {
		return nil, "undecodable"
	}
	kind := "entry"
	if _, _, err := nd.Resolve([]string{"heads"}); err == nil {
		kind = "manifest"
	}
	var out []cid.Cid
	for _, l := range nd.Links() {
		out = append(out, l.Cid)
	}
	return out, kind
}

// closedAt checks that every block among the first n writes has its links among the first n writes.
func closedAt(st *store.Store, n int) (cid.Cid, cid.Cid, bool) {
	have := map[string]bool{}
	for i := 0; i < n && i < len(st.Adds); i++ {
		have[st.Adds[i].KeyString()] = true
	}
	for i := 0; i < n && i < len(st.Adds); i++ {
		links, _ := blockLinks(st, st.Adds[i])
		for _, l := range links {
			if !have[l.KeyString()] {
				return st.Adds[i], l, false
			}
		}
	}
	return cid.Undef, cid.Undef, true
}

// expectedDenialNoPre: the operation failed and the destination's policy had to refuse it (an append of a
// refused payload, or a merge whose source holds a refused entry the destination lacks).
func expectedDenialNoPre(w *seqx.World, op seqx.Op, st *seqx.Step) bool {
	if st.Err == nil || st.Panic != "" {
		return false
	}
	pol := policyOf(w.Cfg.Name, op.A)
	if pol.payload == "" && pol.writerID == "" {
		return false
	}
	switch op.K {
	case "appfixed":
		return pol.payload == "dup"
	case "join":
		for u := range w.ML[op.B].Set {
			if !w.ML[op.A].Set[u] && pol.denies(w, u) {
				return true
			}
		}
	}
	return false
}

// closedNow checks the store as it stands: every block present has all its links present (a store is not
// grow-only by nature: blocks can be removed).
func closedNow(st *store.Store) (cid.Cid, cid.Cid, bool) {
	have := map[string]bool{}
	for _, c := range st.Present() {
		have[c.KeyString()] = true
	}
	for _, c := range st.Present() {
		links, _ := blockLinks(st, c)
		for _, l := range links {
			if !have[l.KeyString()] {
				return c, l, false
			}
		}
	}
	return cid.Undef, cid.Undef, true
}

func uidsOfLog(w *seqx.World, l *ipfslog.IPFSLog) ([]int, []int) {
	var es, hs []int
	for _, e := range l.GetEntries().Slice() {
		u, ok := w.UID[e.GetHash().String()]
		if !ok {
			u = -1
		}
		es = append(es, u)
	}
	for _, e := range l.Heads().Slice() {
		u, ok := w.UID[e.GetHash().String()]
		if !ok {
			u = -1
		}
		hs = append(hs, u)
	}
	sort.Ints(es)
	sort.Ints(hs)
	return es, hs
}

func c17Transition(p *run.Part) func(w *seqx.World, pre *seqx.Pre, op seqx.Op, st *seqx.Step, c seqx.Case) {
	return func(w *seqx.World, pre *seqx.Pre, op seqx.Op, st *seqx.Step, c seqx.Case) {
		if op.K == "pub" && st.Err != nil && st.Panic == "" && len(w.ML[op.A].Set) == 0 {
			return // an empty log has no manifest; refusing to publish it is correct
		}
		refused := expectedDenialNoPre(w, op, st)
		if !refused && stepFailure(p, "bfs", op, st, c) {
			return
		}
		path := seqx.PathString(c.Path)
		// the store as it stands now must be closed, whatever the operation did (also when it was refused)
		if blk, missing, ok := closedNow(w.St); !ok {
			_, kind := blockLinks(w.St, blk)
			p.Violate("bfs", "C17:store-not-closed-now:"+kind, fmt.Sprintf("after %s: the %s block %s is stored but its link %s is not (any more)", path, kind, blk, missing), c)
			return
		}
		// everything ever returned must still load, from the store as it is now, to what it was when returned
		for uid := range w.Returned {
			l, err := ipfslog.NewFromEntryHash(world.Ctx, w.St, world.IDs[0], w.Ent[uid].GetHash(), &ipfslog.LogOptions{ID: "X"}, &ipfslog.FetchOptions{})
			if err != nil {
				p.Violate("bfs", "C17:returned-entry-no-longer-loadable", fmt.Sprintf("after %s: an entry hash returned earlier does not load any more: %v", path, err), c)
				return
			}
			all := map[int]bool{}
			for u := range w.M.Entries {
				all[u] = true
			}
			es, _ := uidsOfLog(w, l)
			if want := keys(w.M.Past(all, []int{uid})); fmt.Sprint(es) != fmt.Sprint(want) {
				p.Violate("bfs", "C17:returned-entry-no-longer-loadable", fmt.Sprintf("after %s: an entry hash returned earlier now loads to %v, it stood for %v", path, es, want), c)
				return
			}
		}
		for _, pb := range w.Pubs {
			l, err := ipfslog.NewFromMultihash(world.Ctx, w.St, world.IDs[0], pb.Cid, &ipfslog.LogOptions{}, &ipfslog.FetchOptions{})
			if err != nil {
				p.Violate("bfs", "C17:manifest-no-longer-loadable", fmt.Sprintf("after %s: a manifest returned earlier does not load any more: %v", path, err), c)
				return
			}
			if es, _ := uidsOfLog(w, l); fmt.Sprint(es) != fmt.Sprint(pb.Set) {
				p.Violate("bfs", "C17:manifest-no-longer-loadable", fmt.Sprintf("after %s: a manifest returned earlier now loads to %v, it stood for %v", path, es, pb.Set), c)
				return
			}
		}
		if refused {
			return
		}
		// (1) closure of every prefix that this operation created. The prefixes of the parent
		// state were checked when the parent was expanded.
		nAdds := len(w.St.Adds)
		first := nAdds
		if n, ok := addsBefore(w, c); ok {
			first = n
		}
		for k := first + 1; k <= nAdds; k++ {
			if blk, missing, ok := closedAt(w.St, k); !ok {
				_, kind := blockLinks(w.St, blk)
				p.Violate("bfs", "C17:store-not-closed:"+kind, fmt.Sprintf("after %s: after block write #%d the %s block %s is stored but its link %s is not", path, k, kind, blk, missing), c)
				return
			}
			p.Add(0, 0, 0, 1)
		}
		// (2) what was returned must load to the model state of that moment from the store of that moment
		switch op.K {
		case "app", "appfixed":
			if st.UID >= len(w.Returned) {
				break
			}
			view := w.St.View(w.Returned[st.UID])
			l, err := ipfslog.NewFromEntryHash(world.Ctx, view, world.IDs[0], st.Entry.GetHash(), &ipfslog.LogOptions{ID: "X"}, &ipfslog.FetchOptions{})
			if err != nil {
				p.Violate("bfs", "C17:returned-entry-not-loadable", fmt.Sprintf("after %s: the entry hash returned by Append does not load from the store: %v", path, err), c)
				return
			}
			es, hs := uidsOfLog(w, l)
			all := map[int]bool{}
			for u := range w.M.Entries {
				all[u] = true
			}
			want := keys(w.M.Past(all, []int{st.UID}))
			if fmt.Sprint(es) != fmt.Sprint(want) || fmt.Sprint(hs) != fmt.Sprint([]int{st.UID}) {
				p.Violate("bfs", "C17:returned-entry-loads-differently", fmt.Sprintf("after %s: loading the returned entry hash gives entries %v heads %v, the log held %v when it was returned", path, es, hs, want), c)
				return
			}
			p.Add(0, 0, 1, 0)
		case "pub":
			pb := w.Pubs[len(w.Pubs)-1]
			view := w.St.View(pb.AtAdd)
			l, err := ipfslog.NewFromMultihash(world.Ctx, view, world.IDs[0], pb.Cid, &ipfslog.LogOptions{}, &ipfslog.FetchOptions{})
			if err != nil {
				p.Violate("bfs", "C17:manifest-not-loadable", fmt.Sprintf("after %s: the manifest returned by ToMultihash does not load: %v", path, err), c)
				return
			}
			es, hs := uidsOfLog(w, l)
			if fmt.Sprint(es) != fmt.Sprint(pb.Set) || fmt.Sprint(hs) != fmt.Sprint(pb.Heads) {
				p.Violate("bfs", "C17:manifest-loads-differently", fmt.Sprintf("after %s: loading the returned manifest gives entries %v heads %v, the log held %v / %v when it was published", path, es, hs, pb.Set, pb.Heads), c)
				return
			}
			p.Add(0, 0, 1, 0)
		}
		// (3) crash injection at every write of this operation
		if op.K == "app" || op.K == "pub" {
			for k := first + 1; k <= nAdds; k++ {
				crashOne(p, w.Cfg, c, k)
				transientOne(p, w.Cfg, c, k)
				transientOne(p, w.Cfg, c, k+threeInARow)
			}
			if op.Pin {
				transientOne(p, w.Cfg, c, pinFailure)
			}
		}
	}
}

func keys(m map[int]bool) []int {
	var r []int
	for k := range m {
		r = append(r, k)
	}
	sort.Ints(r)
	return r
}

// addsBefore replays the parent path to learn how many writes existed before the last operation.
func addsBefore(w *seqx.World, c seqx.Case) (int, bool) {
	if len(c.Path) == 0 {
		return 0, false
	}
	parent := seqx.Replay(w.Cfg, c.Path[:len(c.Path)-1])
	return len(parent.St.Adds), true
}

// crashOne re-runs the history with the k-th Add (and all later ones) failing.
func crashOne(p *run.Part, cfg *seqx.Config, c seqx.Case, k int) {
	path := seqx.PathString(c.Path)
	w := seqx.NewWorld(cfg)
	for _, o := range c.Path[:len(c.Path)-1] {
		w.Apply(o)
	}
	// Add calls so far = block writes so far + repeated writes of existing blocks; count calls
	calls := 0
	for _, cl := range w.St.Calls {
		if cl.Op == "add" {
			calls++
		}
	}
	base := len(w.St.Adds)
	w.St.FailAddAt = calls + (k - base)
	op := c.Path[len(c.Path)-1]
	st := w.Apply(op)
	p.Add(0, 1, 0, 1)
	if st.Panic != "" {
		p.Violate("crash", "C17:crash-panic:"+op.K+":"+run.PanicSite(st.Panic), fmt.Sprintf("after %s with block write #%d failing: %s panicked: %s", path, k, op, st.PanV), crashCase{c, k})
		return
	}
	if _, missing, ok := closedAt(w.St, len(w.St.Adds)); !ok {
		p.Violate("crash", "C17:crash-store-not-closed", fmt.Sprintf("after %s with block write #%d failing: the store holds a block whose link %s is missing", path, k, missing), crashCase{c, k})
		return
	}
	if st.Err == nil {
		// the operation claims success although one of its writes never happened: whatever it returned must load
		w.St.FailAddAt = 0
		var err error
		switch op.K {
		case "app":
			_, err = ipfslog.NewFromEntryHash(world.Ctx, w.St.View(len(w.St.Adds)), world.IDs[0], st.Entry.GetHash(), &ipfslog.LogOptions{ID: "X"}, &ipfslog.FetchOptions{})
			if err == nil && !w.St.Has(st.Entry.GetHash()) {
				err = fmt.Errorf("block of the returned entry is not in the store")
			}
		case "pub":
			_, err = ipfslog.NewFromMultihash(world.Ctx, w.St.View(len(w.St.Adds)), world.IDs[0], st.Cid, &ipfslog.LogOptions{}, &ipfslog.FetchOptions{})
		}
		if err != nil {
			p.Violate("crash", "C17:acknowledged-but-not-stored:"+op.K, fmt.Sprintf("after %s with block write #%d failing: %s reported success but what it returned does not load: %v", path, k, op, err), crashCase{c, k})
			return
		}
	}
	p.Add(0, 0, 1, 0)
}

// transientOne re-runs the history with exactly the k-th Add failing (a write error the process survives), and lets
// the same replica go on: append, publish. At every step the store stays causally closed and what is returned loads
// to the replica's state of that moment.
func transientOne(p *run.Part, cfg *seqx.Config, c seqx.Case, k int) {
	path := seqx.PathString(c.Path)
	w := seqx.NewWorld(cfg)
	for _, o := range c.Path[:len(c.Path)-1] {
		w.Apply(o)
	}
	calls := 0
	for _, cl := range w.St.Calls {
		if cl.Op == "add" {
			calls++
		}
	}
	op := c.Path[len(c.Path)-1]
	cc := crashCase{c, -k}
	desc := fmt.Sprintf("after %s with block write #%d failing once", path, k)
	if k >= threeInARow && k < pinFailure {
		// the same write fails three times in a row (a library that retries twice sees nothing but failures)
		k -= threeInARow
		w.St.FailAddOnly = calls + (k - len(w.St.Adds))
		w.St.FailAddCount = 3
		desc = fmt.Sprintf("after %s with block write #%d failing three times in a row", path, k)
	} else if k == pinFailure {
		w.St.FailPinOnce = true
		desc = fmt.Sprintf("after %s with the pin request of the last append failing", path)
	} else {
		w.St.FailAddOnly = calls + (k - len(w.St.Adds))
	}
	steps := []seqx.Op{op, {K: "app", A: op.A}, {K: "pub", A: op.A}}
	for i, o := range steps {
		st := w.Apply(o)
		p.Add(0, 1, 0, 1)
		if i > 0 {
			desc += ", then " + o.String()
		}
		if st.Panic != "" {
			p.Violate("crash", "C17:write-error-panic:"+o.K+":"+run.PanicSite(st.Panic), fmt.Sprintf("%s: panicked: %s", desc, st.PanV), cc)
			return
		}
		if _, missing, ok := closedAt(w.St, len(w.St.Adds)); !ok {
			p.Violate("crash", "C17:write-error-store-not-closed", fmt.Sprintf("%s: the store holds a block whose link %s is missing", desc, missing), cc)
			return
		}
		l := w.Logs[o.A]
		// whatever the operation answered, the replica is a well-formed log: its heads are its unreferenced entries
		if hs := sortedStrings(hashesOf(l.Heads().Slice())); !eqStrings(hs, unreferenced(l.GetEntries().Slice())) {
			p.Violate("crash", "C17:write-error-heads-not-the-unreferenced-entries", fmt.Sprintf("%s: heads %s, unreferenced entries %s", desc, short(w, hs), short(w, unreferenced(l.GetEntries().Slice()))), cc)
			return
		}
		if st.Err != nil {
			continue
		}
		var got *ipfslog.IPFSLog
		var err error
		switch o.K {
		case "app":
			got, err = ipfslog.NewFromEntryHash(world.Ctx, w.St.View(len(w.St.Adds)), world.IDs[0], st.Entry.GetHash(), &ipfslog.LogOptions{ID: "X"}, &ipfslog.FetchOptions{})
		case "pub":
			got, err = ipfslog.NewFromMultihash(world.Ctx, w.St.View(len(w.St.Adds)), world.IDs[0], st.Cid, &ipfslog.LogOptions{}, &ipfslog.FetchOptions{})
		default:
			continue
		}
		if err != nil {
			p.Violate("crash", "C17:write-error-returned-hash-does-not-load:"+o.K, fmt.Sprintf("%s: what it returned does not load: %v", desc, err), cc)
			return
		}
		if !eqStrings(sortedStrings(hashesOf(got.GetEntries().Slice())), sortedStrings(hashesOf(l.GetEntries().Slice()))) {
			p.Violate("crash", "C17:write-error-loaded-state-differs:"+o.K, fmt.Sprintf("%s: what it returned loads to %d entries, the replica holds %d", desc, got.Len(), l.Len()), cc)
			return
		}
	}
	p.Add(0, 0, 1, 0)
}

// pinFailure as k: not a block write but the pin request of a pinned append fails
const pinFailure = 1 << 20

// threeInARow + k as k: block write k and its next two attempts fail
const threeInARow = 1 << 16

type crashCase struct {
	seqx.Case
	K int `json:"k"`
}

func c17Searches(p *run.Part, tier string) []*seqx.Search {
	depth := 5
	if tier == "thorough" {
		depth = 7
	}
	dl := Budget(tier)
	alpha := []seqx.Op{{K: "app", A: 0}, {K: "app", A: 1, Pin: true}, {K: "join", A: 0, B: 1}, {K: "join", A: 1, B: 0}, {K: "pub", A: 0}, {K: "pub", A: 1}}
	nontriv := func(w *seqx.World) bool { return len(w.Pubs) > 0 && len(w.St.Adds) >= 3 }
	mk := func(cfg *seqx.Config, prefix string, d int) *seqx.Search {
		return &seqx.Search{Part: p, Check: "bfs", Cfg: cfg, Alphabet: alpha, Depth: d, Prefix: Prefixes[prefix], PrefixID: prefix,
			Deadline: dl, OnTransition: c17Transition(p), Nontrivial: nontriv}
	}
	// two replicas of ONE identity, replica 0 refusing the payload "dup": an entry replica 1 stored can be re-created
	// byte-identically (same content identifier) by replica 0 and refused there
	dup := mk(cfgDup, "", depth)
	dup.Alphabet = []seqx.Op{{K: "appfixed", A: 0}, {K: "appfixed", A: 1}, {K: "app", A: 0}, {K: "app", A: 1}, {K: "join", A: 0, B: 1}, {K: "join", A: 1, B: 0}, {K: "pub", A: 1}}
	return []*seqx.Search{mk(CfgDef2, "", depth), mk(CfgDef3, "+fork12", 2), dup}
}

var cfgDup = &seqx.Config{Name: "same-identity-deny-dup", Writers: []int{0, 0}, PC: 4, AC: func(r int) accesscontroller.Interface {
	if r == 0 {
		return &denyPolicy{payload: "dup"}
	}
	return &denyPolicy{}
}}

func init() {
	Configs[cfgDup.Name] = cfgDup
	register(&Check{ID: "C17", Run: func(p *run.Part, tier string) {
		p.Rule = "states are canonical keys of two replicas plus the number of publications; every block write of every transition is a crash point and, separately, a write that fails once while the replica goes on; non-trivial = states with at least one published manifest and >= 3 blocks"
		p.Assume("two replicas on one store, depth as in extra.searches; the store double applies writes atomically and in call order (torn block writes are below the abstraction of Dag().Add); default codec")
		runSearches(p, c17Searches(p, tier))
	}, Replay: func(p *run.Part, check string, raw []byte) {
		if check == "crash" {
			var cc crashCase
			if err := jsonUnmarshal(raw, &cc); err != nil {
				panic(err)
			}
			if cc.K < 0 { // a negative k marks the transient-error variant
				transientOne(p, Configs[cc.Config], cc.Case, -cc.K)
				return
			}
			crashOne(p, Configs[cc.Config], cc.Case, cc.K)
			return
		}
		seqReplay(c17Searches)(p, check, raw)
	}})
}
