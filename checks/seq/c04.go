package seq

import (
	"fmt"
	"math/bits"
	"sort"
	"strings"

	"berty.tech/go-ipfs-log/iface"

	"verif/engine/run"
	"verif/engine/seqx"
	"verif/engine/world"
)

// C04 — every appended entry dominates the log it was appended to.
//
// Transition oracle on every append: next = the heads before the call (as a set); clock
// id = the writer's public key; time > the time of every entry the log held (merged ones
// included); the entry is the single head afterwards; refs are
// entries of its causal past, distinct from next, duplicate-free, and at most
// floor(log2(pointer count)) + 2 many.

func appendOracle(p *run.Part, check string, w *seqx.World, pre *seqx.Pre, op seqx.Op, st *seqx.Step, c seqx.Case) {
	e := st.Entry
	r := op.A
	path := seqx.PathString(c.Path)
	if e == nil {
		p.Violate(check, "C04:nil-entry", "after "+path+": Append returned no entry and no error", c)
		return
	}
	// predecessors = heads before
	var next []string
	for _, n := range e.GetNext() {
		next = append(next, n.String())
	}
	if !eqStrings(sortedStrings(next), sortedStrings(pre.Heads[r])) {
		p.Violate(check, "C04:next-not-heads", fmt.Sprintf("after %s: appended entry names %s as predecessors, heads before the call were %s", path, short(w, next), short(w, pre.Heads[r])), c)
	}
	if len(sortedStrings(next)) != len(uniq(next)) {
		p.Violate(check, "C04:next-duplicates", "after "+path+": predecessor list has duplicates", c)
	}
	// clock id
	wid := world.IDs[w.WriterOf[r]]
	if string(e.GetClock().GetID()) != string(wid.PublicKey) {
		p.Violate(check, "C04:clock-id", fmt.Sprintf("after %s: clock id is not the writer's public key", path), c)
	}
	if string(e.GetKey()) != string(wid.PublicKey) {
		p.Violate(check, "C04:entry-key", fmt.Sprintf("after %s: entry key is not the writer's public key", path), c)
	}
	// time dominates everything held before
	maxT := 0
	for _, x := range pre.Entries[r] {
		if t := x.GetClock().GetTime(); t > maxT {
			maxT = t
		}
	}
	if e.GetClock().GetTime() <= maxT {
		p.Violate(check, "C04:time-not-greater", fmt.Sprintf("after %s: appended entry has time %d, the log already held an entry with time %d", path, e.GetClock().GetTime(), maxT), c)
	}
	if st.TimeAboveMin || st.TimeBelowMin {
		// the model's time is max+1: the smallest time that satisfies the statement. A larger time is allowed by the statement, so this is only counted, not judged.
		p.IncExtra("append_time_above_minimum", 1)
	} else {
		p.Add(0, 0, 1, 0)
	}
	// single head afterwards
	hs := hashesOf(w.Logs[r].Heads().Slice())
	if len(hs) != 1 || hs[0] != e.GetHash().String() {
		p.Violate(check, "C04:not-single-head", fmt.Sprintf("after %s: heads are %s, expected only the appended entry", path, short(w, hs)), c)
	}
	if got, ok := w.Logs[r].Get(e.GetHash()); !ok || got.GetHash() != e.GetHash() {
		p.Violate(check, "C04:not-in-log", "after "+path+": the appended entry is not retrievable from the log", c)
	}
	// refs
	byHash := map[string]iface.IPFSLogEntry{}
	for _, x := range pre.Entries[r] {
		byHash[x.GetHash().String()] = x
	}
	past := map[string]bool{}
	stack := append([]string{}, next...)
	for len(stack) > 0 {
		h := stack[len(stack)-1]
		stack = stack[:len(stack)-1]
		if past[h] {
			continue
		}
		x, ok := byHash[h]
		if !ok {
			continue
		}
		past[h] = true
		for _, n := range x.GetNext() {
			stack = append(stack, n.String())
		}
	}
	inNext := map[string]bool{}
	for _, n := range next {
		inNext[n] = true
	}
	var refs []string
	for _, x := range e.GetRefs() {
		refs = append(refs, x.String())
	}
	for _, x := range refs {
		if inNext[x] {
			p.Violate(check, "C04:ref-is-next", fmt.Sprintf("after %s: reference %s is also a predecessor", path, short(w, []string{x})), c)
		}
		if !past[x] {
			p.Violate(check, "C04:ref-not-in-past", fmt.Sprintf("after %s: reference %s is not in the causal past of the new entry", path, short(w, []string{x})), c)
		}
	}
	if len(uniq(refs)) != len(refs) {
		p.Violate(check, "C04:ref-duplicates", fmt.Sprintf("after %s: references %s contain duplicates", path, short(w, refs)), c)
	}
	pc := op.N
	if pc == 0 {
		pc = w.Cfg.PC
	}
	if pc <= 0 {
		pc = 1
	}
	// floor(log2(pointer count)) entries at power-of-two distances beyond the nearest one (which is a predecessor),
	// plus the oldest known entry when the log is shorter than the pointer count: the count depends on the
	// requested pointer count only, never on how many heads or entries the log has
	bound := bits.Len(uint(pc)) - 1 + 1
	if len(refs) > bound {
		p.Violate(check, "C04:refs-not-logarithmic", fmt.Sprintf("after %s: %d references for pointer count %d (bound %d)", path, len(refs), pc, bound), c)
	}
	if len(refs) > 0 {
		p.Nontriv("refs:" + e.GetHash().String())
	}
}

func uniq(a []string) []string {
	m := map[string]bool{}
	var r []string
	for _, x := range a {
		if !m[x] {
			m[x] = true
			r = append(r, x)
		}
	}
	return r
}

// eight replicas over the four writers: the only way to a log with more heads than a small pointer count
var cfgMany8 = &seqx.Config{Name: "many8", Writers: []int{0, 1, 2, 3, 0, 1, 2, 3}, PC: 1}

func heads8() []seqx.Op {
	var p []seqx.Op
	for i := 0; i < 8; i++ {
		p = append(p, chain(i, i%4+1)...) // branches of different lengths: the heads are up to three ticks apart
	}
	for i := 1; i < 8; i++ {
		p = append(p, seqx.Op{K: "join", A: 0, B: i})
	}
	return p
}

// uneven merges: one writer's branch of k entries merged with another's of m, in both key orders; where the lagging
// head lands in the traversal decides which power-of-two position it occupies
func unevenPrefixes() map[string][]seqx.Op {
	out := map[string][]seqx.Op{}
	for k := 3; k <= 9; k++ {
		for m := 1; m <= 3; m++ {
			for _, d := range [][2]int{{0, 1}, {1, 0}} {
				long, short := d[0], d[1]
				p := append(append(chain(long, k), chain(short, m)...), seqx.Op{K: "join", A: long, B: short})
				out[fmt.Sprintf("+uneven-%d-%d-w%d", k, m, long)] = p
			}
		}
	}
	return out
}

func init() {
	for k, v := range unevenPrefixes() {
		c04Prefixes[k] = v
	}
}

var c04Prefixes = map[string][]seqx.Op{
	"+heads8": heads8(),
	// the writer moves to a second device: an identity with the same id and another public key
	"+setid-device": append(chain(0, 3), seqx.Op{K: "join", A: 2, B: 0}, seqx.Op{K: "app", A: 2}, seqx.Op{K: "join", A: 0, B: 2}, seqx.Op{K: "setid", A: 0, B: 4}),
	"+setid":        append(chain(0, 3), seqx.Op{K: "join", A: 2, B: 0}, seqx.Op{K: "app", A: 2}, seqx.Op{K: "join", A: 0, B: 2}, seqx.Op{K: "setid", A: 0, B: 1}),
}

func c04Searches(p *run.Part, tier string) []*seqx.Search {
	d3, d2, pd := 5, 4, 2
	if tier == "thorough" {
		d3, d2, pd = 7, 6, 3
	}
	dl := Budget(tier)
	rich2 := []seqx.Op{{K: "app", A: 0, N: 1}, {K: "app", A: 0, N: 2}, {K: "app", A: 0, N: 8}, {K: "app", A: 0, N: 64}, {K: "app", A: 1},
		{K: "join", A: 0, B: 1}, {K: "join", A: 1, B: 0}}
	rich3 := append(append([]seqx.Op{}, rich2...), seqx.Op{K: "app", A: 2, N: 16}, seqx.Op{K: "join", A: 0, B: 2}, seqx.Op{K: "join", A: 2, B: 1})
	mk := func(cfg *seqx.Config, prefix string, pre []seqx.Op, alpha []seqx.Op, d int) *seqx.Search {
		return &seqx.Search{Part: p, Check: "bfs", Cfg: cfg, Alphabet: alpha, Depth: d, Prefix: pre, PrefixID: prefix,
			Deadline: dl, NeedPre: true,
			OnTransition: func(w *seqx.World, pre *seqx.Pre, op seqx.Op, st *seqx.Step, c seqx.Case) {
				if stepFailure(p, "bfs", op, st, c) {
					return
				}
				if op.K == "app" {
					appendOracle(p, "bfs", w, pre, op, st, c)
				}
			}}
	}
	var uneven []*seqx.Search
	var names []string
	for k := range unevenPrefixes() {
		names = append(names, k)
	}
	sort.Strings(names)
	for _, k := range names {
		long := 0
		if strings.HasSuffix(k, "w1") {
			long = 1
		}
		uneven = append(uneven, mk(CfgDef2, k, c04Prefixes[k], []seqx.Op{{K: "app", A: long, N: 1}, {K: "app", A: long, N: 2}, {K: "app", A: long, N: 4}, {K: "app", A: long, N: 8}, {K: "app", A: long, N: 16}, {K: "app", A: 1 - long, N: 4}}, 1))
	}
	return append(uneven, []*seqx.Search{
		mk(CfgDef3, "", nil, Alphabet(3, false), d3),
		mk(CfgDef2, "", nil, rich2, d2+1),
		mk(CfgShared3, "", nil, Alphabet(3, false), d3-1),
		mk(CfgClk3, "", nil, Alphabet(3, false), d3-1),
		mk(CfgFww3, "", nil, Alphabet(3, false), d3),
		mk(CfgFww3, "+fork12", Prefixes["+fork12"], rich3, pd),
		mk(CfgDef3, "+chain20", Prefixes["+chain20"], rich3, pd),
		mk(CfgDef3, "+fork12", Prefixes["+fork12"], rich3, pd),
		mk(CfgDef3, "+setid", c04Prefixes["+setid"], rich3, pd+1),
		mk(CfgDef3, "+setid-device", c04Prefixes["+setid-device"], rich3, pd+1),
		mk(cfgMany8, "+heads8", c04Prefixes["+heads8"], []seqx.Op{{K: "app", A: 0, N: 1}, {K: "app", A: 0, N: 2}, {K: "app", A: 0, N: 4}, {K: "app", A: 0, N: 16},
			{K: "app", A: 1}, {K: "join", A: 1, B: 0}, {K: "join", A: 0, B: 1}}, pd+1),
	}...)
}

func init() {
	register(&Check{ID: "C04", Run: func(p *run.Part, tier string) {
		p.Rule = "states are distinct canonical keys; non-trivial = appends that produced at least one skip reference (distinct entries)"
		p.Assume("pointer counts {1,2,4(default),8,16,64}; replicas <= 3 (8 over four writers in the eight-heads start state); depth as in extra.searches; long chains only through the macro prefixes (20-chain, 12+12 fork)")
		runSearches(p, c04Searches(p, tier))
	}, Replay: seqReplay(c04Searches)})
}
