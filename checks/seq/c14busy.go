package seq

import (
	"fmt"
	"os"
	"sort"
	"strings"

	ipfslog "berty.tech/go-ipfs-log"
	"berty.tech/go-ipfs-log/iface"

	"verif/engine/run"
	"verif/engine/store"
	"verif/engine/world"
)

// C14, "busy source": the interleavings of a merge with writes on its source, enumerated at the granularity that
// matters to the merge — between any two of its reads of the source. The source handed to Join is the real log behind
// a wrapper that performs the next write of a script right after each read (RawHeads, GetEntries) has returned:
// nothing, an append, an unbounded merge from a third log, or a size-bounded merge from it (the one write that makes
// the source shrink). Every script of up to four writes over two source shapes. This
// is sequential and deterministic: "a write landed between read i and read i+1" is an environment answer, and all
// answers are enumerated. Oracle: the merge returns (a hang is caught by the supervisor's watchdog), without error;
// every head of the destination is one of its entries; the destination is (what it was) ∪ (a state the source had at
// one of the instants between the call and the return).

type busyCase struct {
	Shape  string   `json:"shape"`
	Script []string `json:"script"` // "-", "app", "join", "join1" per read of the source, in order
}

type busySource struct {
	*ipfslog.IPFSLog
	other  *ipfslog.IPFSLog
	script []string
	pos    int
	states []string
	napp   int
}

func (b *busySource) step() {
	if b.pos >= len(b.script) {
		return
	}
	op := b.script[b.pos]
	b.pos++
	switch op {
	case "app":
		b.napp++
		if _, err := b.IPFSLog.Append(world.Ctx, []byte(fmt.Sprintf("w%d", b.napp)), nil); err != nil {
			panic(err)
		}
	case "join":
		if _, err := b.IPFSLog.Join(b.other, -1); err != nil {
			panic(err)
		}
	case "join1":
		if _, err := b.IPFSLog.Join(b.other, 1); err != nil {
			panic(err)
		}
	}
	b.states = append(b.states, payloadSet(b.IPFSLog))
}

func (b *busySource) RawHeads() iface.IPFSLogOrderedEntries {
	h := b.IPFSLog.RawHeads()
	b.step()
	return h
}

func (b *busySource) GetEntries() iface.IPFSLogOrderedEntries {
	e := b.IPFSLog.GetEntries()
	b.step()
	return e
}

func payloadSet(l *ipfslog.IPFSLog) string {
	var ps []string
	for _, e := range l.GetEntries().Slice() {
		ps = append(ps, string(e.GetPayload()))
	}
	sort.Strings(ps)
	return strings.Join(ps, ",")
}

func unionSets(a, b string) string {
	m := map[string]bool{}
	for _, s := range []string{a, b} {
		for _, x := range strings.Split(s, ",") {
			if x != "" {
				m[x] = true
			}
		}
	}
	var r []string
	for k := range m {
		r = append(r, k)
	}
	sort.Strings(r)
	return strings.Join(r, ",")
}

func busyOne(p *run.Part, bc busyCase) {
	st := store.New()
	dst := world.NewLog(st, 0, nil)
	src := world.NewLog(st, 1, nil)
	oth := world.NewLog(st, 2, nil)
	app := func(l *ipfslog.IPFSLog, s string) {
		if _, err := l.Append(world.Ctx, []byte(s), nil); err != nil {
			panic(err)
		}
	}
	app(dst, "d1")
	app(src, "s1")
	app(oth, "o1")
	if bc.Shape == "two-each" {
		app(dst, "d2")
		app(src, "s2")
		app(oth, "o2")
	}
	b := &busySource{IPFSLog: src, other: oth, script: bc.Script}
	b.states = []string{payloadSet(src)}
	d0 := payloadSet(dst)
	var err error
	pv, stack := run.Safe(func() { _, err = dst.Join(b, -1) })
	p.Add(0, 1, 0, 1)
	desc := fmt.Sprintf("source %s, writes landing after its successive reads %v", bc.Shape, bc.Script)
	if pv != nil {
		p.Violate("busy-source", "C14:busy:panic:"+run.PanicSite(stack), fmt.Sprintf("%s: panic %v at %s", desc, pv, stack), bc)
		return
	}
	if err != nil {
		p.Violate("busy-source", "C14:busy:merge-error", fmt.Sprintf("%s: %v", desc, err), bc)
		return
	}
	for _, h := range dst.Heads().Slice() {
		if _, ok := dst.Get(h.GetHash()); !ok {
			p.Violate("busy-source", "C14:busy:head-not-an-entry", fmt.Sprintf("%s: head %s of the result is not one of its entries", desc, string(h.GetPayload())), bc)
			return
		}
	}
	got := payloadSet(dst)
	for _, s := range b.states[:b.pos+1] {
		if got == unionSets(d0, s) {
			p.Add(0, 0, 1, 0)
			if b.pos > 0 {
				p.Nontriv(fmt.Sprint(bc))
			}
			return
		}
	}
	p.Violate("busy-source", "C14:busy:merge-not-a-snapshot", fmt.Sprintf("%s: the destination ends with {%s}; it started as {%s} and the source was in the states %v", desc, got, d0, b.states[:b.pos+1]), bc)
}

func c14Busy(p *run.Part, tier string) {
	// Four writes at most, in both tiers: the wrapper is not a log of the library's own type, so Join cannot take its
	// heads and entries at one instant (repository fix 7a7438d does that for *IPFSLog sources) and falls back to
	// re-reading the pair while the heads change, four times at most (fix 8e7a03c). Five or more writes during one
	// merge from a foreign implementation of the interface may still give a pair of different states: with seven the
	// script [- join app app join1 join app] does. That is the stated limit of what the interface allows, not a
	// verdict the check may give.
	maxLen := 4
	_ = tier
	if v := os.Getenv("VERIF_BUSY_LEN"); v != "" {
		fmt.Sscan(v, &maxLen)
	}
	ops := []string{"-", "app", "join", "join1"}
	var cases []busyCase
	for _, shape := range []string{"one-each", "two-each"} {
		var rec func(cur []string)
		rec = func(cur []string) {
			if len(cur) > 0 && cur[len(cur)-1] != "-" || len(cur) == 0 {
				cases = append(cases, busyCase{Shape: shape, Script: append([]string{}, cur...)})
			}
			if len(cur) == maxLen {
				return
			}
			for _, o := range ops {
				rec(append(cur, o))
			}
		}
		rec(nil)
	}
	parallelFor(len(cases), func(i int) { busyOne(p, cases[i]) })
	p.SetExtra("busy_source_scripts", len(cases))
	p.Sample(4, busyCase{Shape: "one-each", Script: []string{"join1"}})
}
