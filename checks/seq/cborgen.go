package seq

import (
	"encoding/binary"
	"math"
	"sort"
)

// A minimal canonical CBOR writer for the fault grid: values are
// nil, int64, string, []byte, []interface{}, map[string]interface{}, cborTag, bool, float64.

type cborTag struct {
	Tag uint64
	Val interface{}
}

type absent struct{} // marker: the field is left out of its map

func cborHead(major byte, n uint64) []byte {
	switch {
	case n < 24:
		return []byte{major<<5 | byte(n)}
	case n < 1<<8:
		return []byte{major<<5 | 24, byte(n)}
	case n < 1<<16:
		b := []byte{major<<5 | 25, 0, 0}
		binary.BigEndian.PutUint16(b[1:], uint16(n))
		return b
	case n < 1<<32:
		b := []byte{major<<5 | 26, 0, 0, 0, 0}
		binary.BigEndian.PutUint32(b[1:], uint32(n))
		return b
	}
	b := []byte{major<<5 | 27, 0, 0, 0, 0, 0, 0, 0, 0}
	binary.BigEndian.PutUint64(b[1:], n)
	return b
}

func cborEnc(v interface{}) []byte {
	switch x := v.(type) {
	case nil:
		return []byte{0xf6}
	case bool:
		if x {
			return []byte{0xf5}
		}
		return []byte{0xf4}
	case int:
		return cborEnc(int64(x))
	case int64:
		if x >= 0 {
			return cborHead(0, uint64(x))
		}
		return cborHead(1, uint64(-1-x))
	case uint64:
		return cborHead(0, x)
	case float64:
		b := []byte{0xfb, 0, 0, 0, 0, 0, 0, 0, 0}
		binary.BigEndian.PutUint64(b[1:], math.Float64bits(x))
		return b
	case string:
		return append(cborHead(3, uint64(len(x))), x...)
	case []byte:
		return append(cborHead(2, uint64(len(x))), x...)
	case []interface{}:
		out := cborHead(4, uint64(len(x)))
		for _, e := range x {
			out = append(out, cborEnc(e)...)
		}
		return out
	case map[string]interface{}:
		keys := make([]string, 0, len(x))
		for k, e := range x {
			if _, gone := e.(absent); !gone {
				keys = append(keys, k)
			}
		}
		// RFC 7049 canonical order: shorter keys first, then bytewise
		sort.Slice(keys, func(i, j int) bool {
			if len(keys[i]) != len(keys[j]) {
				return len(keys[i]) < len(keys[j])
			}
			return keys[i] < keys[j]
		})
		out := cborHead(5, uint64(len(keys)))
		for _, k := range keys {
			out = append(out, cborEnc(k)...)
			out = append(out, cborEnc(x[k])...)
		}
		return out
	case cborTag:
		return append(cborHead(6, x.Tag), cborEnc(x.Val)...)
	}
	panic("cborEnc: unsupported value")
}

// deepCopy copies a generic value tree.
func deepCopy(v interface{}) interface{} {
	switch x := v.(type) {
	case map[string]interface{}:
		m := map[string]interface{}{}
		for k, e := range x {
			m[k] = deepCopy(e)
		}
		return m
	case []interface{}:
		l := make([]interface{}, len(x))
		for i, e := range x {
			l[i] = deepCopy(e)
		}
		return l
	}
	return v
}

// setPath sets (or removes, for absent{}) the value at a dotted path; returns false if the parent is not a map.
func setPath(root map[string]interface{}, path []string, v interface{}) bool {
	m := root
	for _, k := range path[:len(path)-1] {
		n, ok := m[k].(map[string]interface{})
		if !ok {
			return false
		}
		m = n
	}
	if _, gone := v.(absent); gone {
		delete(m, path[len(path)-1])
	} else {
		m[path[len(path)-1]] = v
	}
	return true
}
