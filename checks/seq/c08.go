package seq

import (
	"bytes"
	"crypto/sha256"
	"encoding/hex"
	"fmt"
	"os"
	"os/exec"
	"sort"
	"strings"

	ipfslog "berty.tech/go-ipfs-log"
	"berty.tech/go-ipfs-log/enc"
	"berty.tech/go-ipfs-log/entry"
	idp "berty.tech/go-ipfs-log/identityprovider"
	"berty.tech/go-ipfs-log/iface"
	"berty.tech/go-ipfs-log/io/cbor"
	"berty.tech/go-ipfs-log/io/pb"
	"github.com/ipfs/go-cid"
	"github.com/libp2p/go-libp2p/core/crypto"

	"verif/engine/run"
	"verif/engine/store"
	"verif/engine/world"
)

// C08 — entry encoding is canonical and decoding is its exact inverse.
//
// For every entry of the grammar: write -> read back -> every field equal (default codec and
// link-key codec); default codec: re-encoding the decoded entry gives the same CID; encoding
// the same logical entry three times gives one CID; two separate processes (different map
// hash seeds) compute the same digest over all grammar CIDs; manifests of every permutation
// of a head set encode to one CID; the pinned interoperability vectors and the v0/v1
// fixtures hash and decode bit-exactly.

// linkKeyIO: the key of a seed is SHA-256(seed); a seed of the form "K1^n" is K1's key with bit 0 of byte n flipped
// (a key one bit away from the writer's is a different key).
func linkKeyIO(seed string) iface.IO {
	k := sha256.Sum256([]byte(seed))
	if i := strings.Index(seed, "^"); i > 0 {
		k = sha256.Sum256([]byte(seed[:i]))
		n := 0
		fmt.Sscan(seed[i+1:], &n)
		k[n] ^= 1
	}
	buf := append([]byte{}, k[:]...)
	sk, err := enc.NewSecretbox(buf)
	if err != nil {
		panic(err)
	}
	base, err := cbor.IO(&entry.Entry{}, &entry.LamportClock{})
	if err != nil {
		panic(err)
	}
	io := base.ApplyOptions(&cbor.Options{LinkKey: sk})
	// another codec (another key) is derived from this one and thrown away: deriving configures the new codec only
	if k3, err := enc.NewSecretbox(bytes.Repeat([]byte{0x33}, 32)); err == nil {
		_ = io.ApplyOptions(&cbor.Options{LinkKey: k3})
	}
	// the caller's key buffer is the caller's: it is reused afterwards (a scratch buffer read
	// from a file, a buffer wiped after use); the codec keeps the key it was given, not the buffer
	// (the same bytes whatever the key was: a codec that kept the buffer would make all keys one key)
	other := sha256.Sum256([]byte("the buffer is reused"))
	copy(buf, other[:])
	return io
}

type c08Case struct {
	Spec  entrySpec `json:"spec"`
	Codec string    `json:"codec"`
	What  string    `json:"what"`
	// Index > 0: the case is entry number Index-1 of the grammar pass of Tier, which runs sequentially in a fixed
	// order; the replay re-runs the pass up to and including it, because a codec may carry state from one
	// decode to the next (a pooled decode target, a cache) and the failure then depends on what was decoded before
	Index int    `json:"index,omitempty"`
	Tier  string `json:"tier,omitempty"`
}

// c08Seq is the position in the sequential pass (set by c08Run around each c08One call; 0 outside it)
var c08Seq struct {
	index int
	tier  string
}

func eqCids(a, b []cid.Cid) bool {
	if len(a) != len(b) {
		return false
	}
	for i := range a {
		if !a[i].Equals(b[i]) {
			return false
		}
	}
	return true
}

// fieldDiff compares two entries field by field (list fields as sequences, nil == empty).
func fieldDiff(a, b iface.IPFSLogEntry) string {
	switch {
	case !bytes.Equal(a.GetPayload(), b.GetPayload()):
		return "payload"
	case a.GetLogID() != b.GetLogID():
		return "logid"
	case !eqCids(a.GetNext(), b.GetNext()):
		return "next"
	case !eqCids(a.GetRefs(), b.GetRefs()):
		return "refs"
	case a.GetV() != b.GetV():
		return "v"
	case !bytes.Equal(a.GetKey(), b.GetKey()):
		return "key"
	case !bytes.Equal(a.GetSig(), b.GetSig()):
		return "sig"
	case !a.GetHash().Equals(b.GetHash()):
		return "hash"
	case a.GetClock().GetTime() != b.GetClock().GetTime():
		return "clock.time"
	case !bytes.Equal(a.GetClock().GetID(), b.GetClock().GetID()):
		return "clock.id"
	}
	ia, ib := a.GetIdentity(), b.GetIdentity()
	if (ia == nil) != (ib == nil) {
		return "identity"
	}
	if ia != nil {
		switch {
		case ia.ID != ib.ID:
			return "identity.id"
		case !bytes.Equal(ia.PublicKey, ib.PublicKey):
			return "identity.publicKey"
		case ia.Type != ib.Type:
			return "identity.type"
		case (ia.Signatures == nil) != (ib.Signatures == nil):
			return "identity.signatures"
		case ia.Signatures != nil && (!bytes.Equal(ia.Signatures.ID, ib.Signatures.ID) || !bytes.Equal(ia.Signatures.PublicKey, ib.Signatures.PublicKey)):
			return "identity.signatures"
		}
	}
	return ""
}

func c08One(p *run.Part, spec entrySpec, codec string) (cidStr string) {
	st := store.New()
	var io iface.IO
	switch codec {
	case "default":
		io = defaultIO()
	case "linkkey":
		io = linkKeyIO("K1")
	}
	viol := func(key, what string) {
		p.Violate("roundtrip", "C08:"+codec+":"+key, fmt.Sprintf("%s codec, entry %s: %s", codec, spec, what), c08Case{Spec: spec, Codec: codec, What: key, Index: c08Seq.index, Tier: c08Seq.tier})
	}
	e, err := spec.build(st, io)
	p.Add(1, 1, 0, 1)
	if err != nil {
		viol("create-failed", err.Error())
		return ""
	}
	if c, ok := io.(*cbor.IOCbor); ok && codec == "linkkey" {
		// between the write and the read another codec is derived from this one: this one stays what it was
		if k3, err := enc.NewSecretbox(bytes.Repeat([]byte{0x44}, 32)); err == nil {
			_ = c.ApplyOptions(&cbor.Options{LinkKey: k3})
		}
	}
	d, err := entry.FromMultihashWithIO(world.Ctx, st, e.GetHash(), world.IDs[spec.Writer].Provider, io)
	if err != nil {
		viol("read-back-failed", err.Error())
		return ""
	}
	if f := fieldDiff(e, d); f != "" {
		viol("field-differs:"+f, fmt.Sprintf("field %s differs after write+read:\n  wrote %s\n  read  %s", f, seqxDump(e), seqxDump(d)))
		return ""
	}
	if codec == "default" {
		// re-encoding the decoded entry gives the same identifier
		c2, err := entry.ToMultihashWithIO(world.Ctx, d, store.New(), nil, io)
		if err != nil {
			viol("re-encode-failed", err.Error())
			return ""
		}
		if !c2.Equals(e.GetHash()) {
			viol("re-encode-different-cid", fmt.Sprintf("decoded entry re-encodes to %s, original %s", c2, e.GetHash()))
			return ""
		}
		// same logical entry, encoded again twice from scratch
		for i := 0; i < 2; i++ {
			e2, err := spec.build(store.New(), io)
			if err != nil || !e2.GetHash().Equals(e.GetHash()) {
				viol("same-entry-different-cid", fmt.Sprintf("building the same entry again gives %v (err %v), first %s", e2, err, e.GetHash()))
				return ""
			}
		}
		// the stored block must decode to exactly the same bytes when wrapped again (canonical CBOR)
		raw, _ := st.Raw(e.GetHash())
		nd, err := store.Decode(e.GetHash(), raw)
		if err != nil || !bytes.Equal(nd.RawData(), raw) {
			viol("block-not-canonical", "decoding and re-serialising the stored block changes its bytes")
			return ""
		}
	}
	p.Add(0, 0, 1, 0)
	if len(spec.Next)+len(spec.Refs) > 0 {
		p.Nontriv(codec + spec.String())
	}
	return e.GetHash().String()
}

func seqxDump(e iface.IPFSLogEntry) string {
	return fmt.Sprintf("payload=%x id=%q next=%v refs=%v v=%d clock=%x@%d key=%x", e.GetPayload(), e.GetLogID(), e.GetNext(), e.GetRefs(), e.GetV(), e.GetClock().GetID(), e.GetClock().GetTime(), e.GetKey())
}

// identityVariant returns writer w's identity with altered (unverified) identity signatures:
// entries embed whatever identity they are created with, and decoding must give it back.
func identityVariant(w, variant int) *idp.Identity {
	base := world.IDs[w]
	id := &idp.Identity{ID: base.ID, PublicKey: base.PublicKey, Type: base.Type, Provider: base.Provider,
		Signatures: &idp.IdentitySignature{ID: append([]byte{}, base.Signatures.ID...), PublicKey: append([]byte{}, base.Signatures.PublicKey...)}}
	switch variant {
	case 1:
		id.Signatures.ID[len(id.Signatures.ID)-1] ^= 1
	case 2:
		id.Signatures.PublicKey[len(id.Signatures.PublicKey)-1] ^= 1
	case 3:
		id.Signatures.ID = append(id.Signatures.ID, 0x01)
		id.Signatures.PublicKey = id.Signatures.PublicKey[:len(id.Signatures.PublicKey)-1]
	case 4:
		// an identity type no provider is registered for in this process: the codec stores and returns what it is given
		id.Type = "a-type-nobody-registered"
	}
	return id
}

// c08Identities writes and reads back, in one process and in this order, entries of the same
// writer whose identities differ only in their identity signatures.
func c08Identities(p *run.Part) {
	for _, codec := range []string{"default", "linkkey"} {
		for w := 0; w < 2; w++ {
			st := store.New()
			io := defaultIO()
			if codec == "linkkey" {
				io = linkKeyIO("K1")
			}
			for step, variant := range []int{0, 1, 2, 3, 0, 2, 4, 0} {
				id := identityVariant(w, variant)
				e, err := entry.CreateEntryWithIO(world.Ctx, st, id, &entry.Entry{LogID: "X", Payload: []byte(fmt.Sprintf("idv%d", step)),
					Next: linksOf([]int{0}), Clock: entry.NewLamportClock(id.PublicKey, step+1)}, nil, io)
				p.Add(1, 1, 0, 1)
				cc := c08Case{Codec: codec, What: fmt.Sprintf("identity-variants:w%d", w)}
				if err != nil {
					p.Violate("identity", "C08:"+codec+":identity-variant-create-failed", err.Error(), cc)
					continue
				}
				d, err := entry.FromMultihashWithIO(world.Ctx, st, e.GetHash(), id.Provider, io)
				if err != nil {
					p.Violate("identity", "C08:"+codec+":identity-variant-read-failed", err.Error(), cc)
					continue
				}
				if f := fieldDiff(e, d); f != "" {
					p.Violate("identity", "C08:"+codec+":field-differs:"+f, fmt.Sprintf("%s codec: entry #%d of writer %d (identity variant %d, written after other entries of the same writer whose identity differs only in its signatures): field %s differs after write+read", codec, step, w, variant, f), cc)
					continue
				}
				if codec == "default" {
					if c2, err := entry.ToMultihashWithIO(world.Ctx, d, store.New(), nil, io); err != nil || !c2.Equals(e.GetHash()) {
						p.Violate("identity", "C08:default:re-encode-different-cid", fmt.Sprintf("identity variant %d: decoded entry re-encodes to %v (err %v), original %s", variant, c2, err, e.GetHash()), cc)
						continue
					}
				}
				p.Add(0, 0, 1, 0)
				p.Nontriv(fmt.Sprint(codec, w, step))
			}
		}
	}
}

// c08ForeignIdentity: the fields of an entry are independent of each other for the codec. An entry signed by one
// writer (key, clock id) may carry another writer's identity (the identity is not covered by the entry signature: a
// delegated writer, a re-wrapped entry, a hand-built one); every ordered pair of the eight identities, both codecs.
// Whatever is written is read back: key, clock id and every identity field.
func c08ForeignIdentity(p *run.Part) {
	for _, codec := range []string{"default", "linkkey"} {
		io := defaultIO()
		if codec == "linkkey" {
			io = linkKeyIO("K1")
		}
		for a := range world.IDs {
			for b := range world.IDs {
				if a == b {
					continue
				}
				st := store.New()
				cc := c08Case{Codec: codec, What: fmt.Sprintf("foreign-identity:signed-by-w%d-identity-of-w%d", b, a)}
				created, err := entry.CreateEntryWithIO(world.Ctx, st, world.IDs[b], &entry.Entry{LogID: "X", Payload: []byte("fi"),
					Next: linksOf([]int{0}), Clock: entry.NewLamportClock(world.IDs[b].PublicKey, 3)}, nil, io)
				p.Add(1, 1, 0, 1)
				if err != nil {
					p.Violate("identity", "C08:"+codec+":foreign-identity-create-failed", err.Error(), cc)
					continue
				}
				written := created.Copy()
				written.SetIdentity(world.IDs[a].Filtered())
				h, err := entry.ToMultihashWithIO(world.Ctx, written, st, nil, io)
				if err != nil {
					p.Violate("identity", "C08:"+codec+":foreign-identity-write-failed", err.Error(), cc)
					continue
				}
				written.SetHash(h)
				d, err := entry.FromMultihashWithIO(world.Ctx, st, h, world.IDs[a].Provider, io)
				if err != nil {
					p.Violate("identity", "C08:"+codec+":foreign-identity-read-failed", err.Error(), cc)
					continue
				}
				if f := fieldDiff(written, d); f != "" {
					p.Violate("identity", "C08:"+codec+":field-differs:"+f, fmt.Sprintf("%s codec: an entry signed by writer %d and carrying writer %d's identity: field %s differs after write+read:\n  wrote %s\n  read  %s", codec, b, a, f, seqxDump(written), seqxDump(d)), cc)
					continue
				}
				p.Add(0, 0, 1, 0)
				p.Nontriv(cc.What + codec)
			}
		}
	}
}

// c08RawLinks writes entries whose link lists are NOT normalised by entry creation (duplicates and every
// order, as a block written by another implementation may carry) straight through the codec and reads them back.
func c08RawLinks(p *run.Part) {
	grammarInit()
	st := store.New()
	io := defaultIO()
	base, err := entrySpec{Payload: []byte("raw"), Time: 4, Writer: 0, LogID: "X", Next: []int{}, Refs: []int{}}.build(st, io)
	if err != nil {
		panic(err)
	}
	lists := linkLists(3)
	for _, nx := range lists {
		for _, rf := range lists {
			if len(nx)+len(rf) > 4 {
				continue
			}
			e := base.Copy()
			e.SetNext(linksOf(nx))
			e.SetRefs(linksOf(rf))
			cc := c08Case{Codec: "default", What: fmt.Sprintf("raw-links:next=%v refs=%v", nx, rf)}
			p.Add(1, 1, 0, 1)
			c, err := entry.ToMultihashWithIO(world.Ctx, e, st, nil, io)
			if err != nil {
				p.Violate("rawlinks", "C08:default:raw-write-failed", err.Error(), cc)
				continue
			}
			d, err := entry.FromMultihashWithIO(world.Ctx, st, c, world.IDs[0].Provider, io)
			if err != nil {
				p.Violate("rawlinks", "C08:default:raw-read-failed", err.Error(), cc)
				continue
			}
			if !eqCids(d.GetNext(), e.GetNext()) || !eqCids(d.GetRefs(), e.GetRefs()) {
				p.Violate("rawlinks", "C08:default:field-differs:links-not-normalised", fmt.Sprintf("a block written with next=%v refs=%v (pool indices) reads back with next=%v refs=%v", nx, rf, d.GetNext(), d.GetRefs()), cc)
				continue
			}
			c2, err := entry.ToMultihashWithIO(world.Ctx, d, store.New(), nil, io)
			if err != nil || !c2.Equals(c) {
				p.Violate("rawlinks", "C08:default:re-encode-different-cid", fmt.Sprintf("block with next=%v refs=%v: decoded entry re-encodes to %v (err %v), block is %s", nx, rf, c2, err, c), cc)
				continue
			}
			p.Add(0, 0, 1, 0)
			p.Nontriv(cc.What)
		}
	}
}

// C08Digest computes the digest over the CIDs of all grammar entries (default codec) and all manifests.
func C08Digest(tier string) string {
	g := grammar(tier)
	h := sha256.New()
	io := defaultIO()
	for _, s := range g {
		e, err := s.build(store.New(), io)
		if err != nil {
			fmt.Fprintf(h, "err:%v;", err)
			continue
		}
		fmt.Fprintf(h, "%s;", e.GetHash())
	}
	for _, c := range manifestCids() {
		fmt.Fprintf(h, "%s;", c)
	}
	return hex.EncodeToString(h.Sum(nil))
}

// manifestCids publishes logs whose heads were inserted in every order and returns the manifest CIDs grouped per head set.
func manifestCids() []string {
	var out []string
	st := store.New()
	// three concurrent heads by three writers
	var heads []iface.IPFSLogEntry
	for w := 0; w < 3; w++ {
		l := world.NewLog(st, w, nil)
		e, err := l.Append(world.Ctx, []byte(fmt.Sprintf("h%d", w)), nil)
		if err != nil {
			panic(err)
		}
		heads = append(heads, e)
	}
	for _, pm := range permutations(3) {
		es := entry.NewOrderedMap()
		var hs []iface.IPFSLogEntry
		for _, i := range pm {
			es.Set(heads[i].GetHash().String(), heads[i])
			hs = append(hs, heads[i])
		}
		l, err := ipfslog.NewLog(st, world.IDs[0], &ipfslog.LogOptions{ID: "X", Entries: es, Heads: hs})
		if err != nil {
			panic(err)
		}
		c, err := l.ToMultihash(world.Ctx)
		if err != nil {
			panic(err)
		}
		out = append(out, c.String())
	}
	return out
}

func c08Run(p *run.Part, tier string) {
	g := grammar(tier)
	dl := Budget(tier)
	expired := false
	cids := make([]string, len(g))
	// sequential and in a fixed order: an order-dependent failure must be replayable
	for i := range g {
		if dl.Expired() {
			expired = true
			break
		}
		c08Seq.index, c08Seq.tier = i+1, tier
		cids[i] = c08One(p, g[i], "default")
		c08One(p, g[i], "linkkey")
	}
	// every ordered pair of shape representatives, under every pair of codecs, one right after the other:
	// what a codec carries from one call to the next depends on the shapes of both
	pairs := c08Pairs(g, tier)
	for i, pr := range pairs {
		if dl.Expired() {
			expired = true
			break
		}
		c08Seq.index, c08Seq.tier = len(g)+i+1, tier
		c08One(p, pr[0].spec, pr[0].codec)
		c08One(p, pr[1].spec, pr[1].codec)
	}
	p.SetExtra("ordered_pairs_of_representatives", len(pairs))
	c08Seq.index = 0
	if expired {
		p.Inexhaustive("deadline")
	}
	// distinct logical entries get distinct identifiers
	seen := map[string]int{}
	for i, c := range cids {
		if c == "" {
			continue
		}
		if j, ok := seen[c]; ok && g[i].String() != g[j].String() && !sameAfterDedup(g[i], g[j]) {
			p.Violate("roundtrip", "C08:default:different-entries-same-cid", fmt.Sprintf("entries %s and %s encode to the same identifier", g[i], g[j]), c08Case{Spec: g[i], Codec: "default", What: "collision"})
		}
		seen[c] = i
	}
	// manifests: every permutation of the head set gives one identifier
	ms := manifestCids()
	for _, m := range ms[1:] {
		p.Add(0, 1, 0, 1)
		if m != ms[0] {
			p.Violate("manifest", "C08:manifest-depends-on-head-order", fmt.Sprintf("manifests of the same head set inserted in different orders: %s vs %s", ms[0], m), c08Case{Codec: "default", What: "manifest"})
		} else {
			p.Add(0, 0, 1, 0)
		}
	}
	// two separate processes (fresh map hash seeds)
	self, _ := os.Executable()
	mine := C08Digest(tier)
	for i := 0; i < 2; i++ {
		out, err := exec.Command(self, "c08digest", tier).Output()
		p.Add(0, 1, 0, 1)
		if err != nil {
			p.Violate("process", "C08:digest-process-failed", fmt.Sprintf("worker process failed: %v", err), c08Case{What: "process"})
			continue
		}
		if strings.TrimSpace(string(out)) != mine {
			p.Violate("process", "C08:cids-differ-between-processes", fmt.Sprintf("digest over all grammar CIDs differs between processes: %s vs %s", mine, strings.TrimSpace(string(out))), c08Case{What: "process"})
		} else {
			p.Add(0, 0, 1, 0)
		}
	}
	c08Vectors(p)
	c08Identities(p)
	c08ForeignIdentity(p)
	c08RawLinks(p)
	p.SetExtra("grammar_entries", len(g))
	p.SetExtra("cid_digest", mine)
	p.Sample(6, c08Case{Spec: g[3], Codec: "default", What: "roundtrip"})
	p.Sample(6, c08Case{Spec: g[len(g)-2], Codec: "linkkey", What: "roundtrip"})
}

type c08Item struct {
	spec  entrySpec
	codec string
}

// c08Pairs: one representative per shape class of the grammar (payload length class, numbers of predecessors and
// references, writer, clock-time class), every ordered pair of them, every pair of codecs.
func c08Pairs(g []entrySpec, tier string) [][2]c08Item {
	class := func(s entrySpec) string {
		pl := 0
		switch n := len(s.Payload); {
		case n == 0:
		case n == 1:
			pl = 1
		case n < 24:
			pl = 2
		case n < 256:
			pl = 3
		default:
			pl = 4
		}
		tc := 0
		switch t := s.Time; {
		case t < 0:
			tc = 3
		case t > 1<<31:
			tc = 2
		case t > 23:
			tc = 1
		}
		return fmt.Sprint(pl, len(s.Next), len(s.Refs), s.Writer, tc)
	}
	seen := map[string]bool{}
	var reps []entrySpec
	for _, s := range g {
		if k := class(s); !seen[k] {
			seen[k] = true
			reps = append(reps, s)
		}
	}
	max := 14
	if tier == "thorough" {
		max = 60
	}
	if len(reps) > max {
		// keep the classes spread over the grammar rather than its first entries
		var r []entrySpec
		for i := 0; i < max; i++ {
			r = append(r, reps[i*len(reps)/max])
		}
		reps = r
	}
	var out [][2]c08Item
	for _, a := range reps {
		for _, b := range reps {
			for _, ca := range []string{"default", "linkkey"} {
				for _, cb := range []string{"default", "linkkey"} {
					out = append(out, [2]c08Item{{a, ca}, {b, cb}})
				}
			}
		}
	}
	return out
}

func sameAfterDedup(a, b entrySpec) bool {
	d := func(x []int) string {
		seen := map[int]bool{}
		var r []int
		for _, v := range x {
			if !seen[v] {
				seen[v] = true
				r = append(r, v)
			}
		}
		return fmt.Sprint(r)
	}
	return bytes.Equal(a.Payload, b.Payload) && a.Time == b.Time && a.Writer == b.Writer && a.LogID == b.LogID && d(a.Next) == d(b.Next) && d(a.Refs) == d(b.Refs)
}

// ---------------------------------------------------------------------------
// pinned vectors (copied as data from test/entry_test.go, test/utils.go, test/utils_fixtures_test.go)

func mustHex(s string) []byte {
	b, err := hex.DecodeString(s)
	if err != nil {
		panic(err)
	}
	return b
}

func mustCid(s string) cid.Cid {
	c, err := cid.Decode(s)
	if err != nil {
		panic(err)
	}
	return c
}

func pinnedIdentity() *idp.Identity {
	keys := map[string]string{
		"userA": "0a135ce157a9ccb8375c2fae0d472f1eade4b40b37704c02df923b78ca03c627",
		"03e0480538c2a39951d054e17ff31fde487cb1031d0044a037b53ad2e028a3e77c": "97f64ca2bf7bd6aa2136eb0aa3ce512433bd903b91d48b2208052d6ff286d080",
	}
	ks := world.NewStaticKeystore()
	for n, h := range keys {
		k, err := crypto.UnmarshalSecp256k1PrivateKey(mustHex(h))
		if err != nil {
			panic(err)
		}
		ks.Put(n, k)
	}
	id, err := idp.CreateIdentity(world.Ctx, &idp.CreateIdentityOptions{Keystore: ks, ID: "userA", Type: "orbitdb"})
	if err != nil {
		panic(err)
	}
	return id
}

const v1Key = "048bef2231e64d5c7147bd4b8afb84abd4126ee8d8335e4b069ac0a65c7be711cea5c1b8d47bc20ebaecdca588600ddf2894675e78b2ef17cf49e7bbaf98080361"
const v0Key = "0411a0d38181c9374eca3e480ecada96b1a4db9375c5e08c3991557759d22f6f2f902d0dc5364a948035002504d825308b0c257b7cbb35229c2076532531f8f4ef"
const v0Sig = "3044022062f4cfc8b8f3cc01283b25eab3eeb295614bb0faa8bd20f026c1487ae663121102207ce415bd7423b66d695338c17122e937259f77d1e86494d3146436f0959fccc6"

func v1Fixture(i int, prov idp.Interface) *entry.Entry {
	ident := &idp.Identity{
		ID:        "03e0480538c2a39951d054e17ff31fde487cb1031d0044a037b53ad2e028a3e77c",
		PublicKey: mustHex(v1Key),
		Signatures: &idp.IdentitySignature{
			ID:        mustHex("3045022100f5f6f10571d14347aaf34e526ce3419fd64d75ffa7aa73692cbb6aeb6fbc147102203a3e3fa41fa8fcbb9fc7c148af5b640e2f704b20b3a4e0b93fc3a6d44dffb41e"),
			PublicKey: mustHex("3044022020982b8492be0c184dc29de0a3a3bd86a86ba997756b0bf41ddabd24b47c5acf02203745fda39d7df650a5a478e52bbe879f0cb45c074025a93471414a56077640a4"),
		},
		Type: "orbitdb", Provider: prov,
	}
	switch i {
	case 0:
		return &entry.Entry{Payload: []byte("one"), LogID: "A", Next: []cid.Cid{}, V: 1, Key: mustHex(v1Key),
			Sig:      mustHex("3045022100f72546c99cf30eda1d394d91209bdb4569408a792caf9dc7c6415fef37a3118d0220645c4a6d218f8fc478af5bab175aaa99e1505d70c2a00997aacafa8de697944e"),
			Identity: ident, Hash: mustCid("zdpuAsJDrLKrAiU8M518eu6mgv9HzS3e1pfH5XC7LUsFgsK5c"), Clock: entry.NewLamportClock(mustHex(v1Key), 1)}
	default:
		return &entry.Entry{Payload: []byte("two"), LogID: "A", Next: []cid.Cid{mustCid("zdpuAsJDrLKrAiU8M518eu6mgv9HzS3e1pfH5XC7LUsFgsK5c")}, V: 1, Key: mustHex(v1Key),
			Sig:      mustHex("3045022100b85c85c59e6d0952f95e3839e48b43b4073ef26f6f4696d785ce64053cd5869a0220644a4a7a15ddcd2b152611b08bf23b9df7823846719f2d0e4b0aff64190ed146"),
			Identity: ident, Hash: mustCid("zdpuAxgKyiM9qkP9yPKCCqrHer9kCqYyr7KbhucsPwwfh6JB3"), Clock: entry.NewLamportClock(mustHex(v1Key), 2)}
	}
}

func v0Fixture(name string) *entry.Entry {
	switch name {
	case "hello":
		return &entry.Entry{Hash: mustCid("Qmc2DEiLirMH73kHpuFPbt3V65sBrnDWkJYSjUQHXXvghT"), LogID: "A", Payload: []byte("hello"), V: 0,
			Clock: entry.NewLamportClock(mustHex(v0Key), 0), Sig: mustHex(v0Sig), Key: mustHex(v0Key), Next: []cid.Cid{}}
	case "helloWorld":
		return &entry.Entry{Hash: mustCid("QmUKMoRrmsYAzQg1nQiD7Fzgpo24zXky7jVJNcZGiSAdhc"), LogID: "A", Payload: []byte("hello world"), V: 0,
			Clock: entry.NewLamportClock(mustHex(v0Key), 0), Sig: mustHex(v0Sig), Key: mustHex(v0Key), Next: []cid.Cid{}}
	default:
		return &entry.Entry{Hash: mustCid("QmZ8va2fSjRufV1sD6x5mwi6E5GrSjXHx7RiKFVBzkiUNZ"), LogID: "A", Payload: []byte("hello again"), V: 0,
			Clock: entry.NewLamportClock(mustHex(v0Key), 0), Sig: mustHex(v0Sig), Key: mustHex(v0Key), Next: []cid.Cid{mustCid("QmUKMoRrmsYAzQg1nQiD7Fzgpo24zXky7jVJNcZGiSAdhc")}}
	}
}

func c08Vectors(p *run.Part) {
	id := pinnedIdentity()
	st := store.New()
	io := defaultIO()
	pbio, err := pb.IO(&entry.Entry{}, &entry.LamportClock{})
	if err != nil {
		panic(err)
	}
	expect := func(name string, got cid.Cid, err error, want string) bool {
		p.Add(0, 1, 0, 1)
		if err != nil {
			p.Violate("vectors", "C08:vector:"+name, fmt.Sprintf("pinned vector %s: error %v", name, err), c08Case{What: "vector:" + name})
			return false
		}
		if !got.Equals(mustCid(want)) {
			p.Violate("vectors", "C08:vector:"+name, fmt.Sprintf("pinned vector %s: got %s, pinned %s", name, got, mustCid(want)), c08Case{What: "vector:" + name})
			return false
		}
		p.Add(0, 0, 1, 0)
		return true
	}
	hashOf := func(e iface.IPFSLogEntry, err error) (cid.Cid, error) {
		if err != nil {
			return cid.Undef, err
		}
		return e.GetHash(), nil
	}
	e1, err := entry.CreateEntry(world.Ctx, st, id, &entry.Entry{Payload: []byte("hello"), LogID: "A"}, nil)
	c, err := hashOf(e1, err)
	expect("create-hello", c, err, "zdpuAsPdzSyeux5mFsFV1y3WeHAShGNi4xo22cYBYWUdPtxVB")
	e2, err := entry.CreateEntry(world.Ctx, st, id, &entry.Entry{Payload: []byte("hello world"), LogID: "A"}, nil)
	c, err = hashOf(e2, err)
	expect("create-hello-world", c, err, "zdpuAyvJU3TS7LUdfRxwAnJorkz6NfpAWHGypsQEXLZxcCCRC")
	if e2 != nil {
		clk := entry.NewLamportClock(e2.GetClock().GetID(), e2.GetClock().GetTime()+1)
		e3, err := entry.CreateEntry(world.Ctx, st, id, &entry.Entry{Payload: []byte("hello again"), LogID: "A", Next: []cid.Cid{e2.GetHash()}, Clock: clk}, nil)
		c, err = hashOf(e3, err)
		expect("create-with-next-and-clock", c, err, "zdpuAqsN9Py4EWSfrGYZS8tuokWuiTd9zhS8dhr9XpSGQajP2")
		e4, err := entry.CreateEntry(world.Ctx, st, id, &entry.Entry{Payload: []byte("hello again"), LogID: "A", Next: []cid.Cid{e2.GetHash()}}, nil)
		c, err = hashOf(e4, err)
		if expect("create-with-next", c, err, "zdpuAnRGWKPkMHqumqdkRJtzbyW6qAGEiBRv61Zj3Ts4j9tQF") {
			f, err := entry.FromMultihash(world.Ctx, st, e4.GetHash(), id.Provider)
			if err != nil || f.GetLogID() != "A" || string(f.GetPayload()) != "hello again" || len(f.GetNext()) != 1 || !f.GetHash().Equals(e4.GetHash()) {
				p.Violate("vectors", "C08:vector:decode-with-next", fmt.Sprintf("pinned entry does not decode to its fields: %v %v", f, err), c08Case{What: "vector:decode-with-next"})
			}
		}
	}
	// v1 fixtures
	f0, f1 := v1Fixture(0, id.Provider), v1Fixture(1, id.Provider)
	c, err = f0.ToMultihash(world.Ctx, st, nil)
	expect("v1-tomultihash", c, err, "zdpuAsJDrLKrAiU8M518eu6mgv9HzS3e1pfH5XC7LUsFgsK5c")
	c1, err1 := io.Write(world.Ctx, st, f0, nil)
	c2, err2 := io.Write(world.Ctx, st, f1, nil)
	expect("v1-write-1", c1, err1, "zdpuAsJDrLKrAiU8M518eu6mgv9HzS3e1pfH5XC7LUsFgsK5c")
	if expect("v1-write-2", c2, err2, "zdpuAxgKyiM9qkP9yPKCCqrHer9kCqYyr7KbhucsPwwfh6JB3") {
		f, err := entry.FromMultihash(world.Ctx, st, c2, id.Provider)
		if err != nil || f.GetLogID() != "A" || string(f.GetPayload()) != "two" || len(f.GetNext()) != 1 || !f.GetNext()[0].Equals(c1) || f.GetV() != 1 || !f.GetHash().Equals(c2) ||
			!bytes.Equal(f.GetKey(), f1.Key) || !bytes.Equal(f.GetSig(), f1.Sig) || f.GetClock().GetTime() != 2 {
			p.Violate("vectors", "C08:vector:v1-decode", fmt.Sprintf("v1 block does not decode to the fixture fields: %v %v", f, err), c08Case{What: "vector:v1-decode"})
		} else {
			p.Add(0, 0, 1, 0)
		}
	}
	// v0 fixtures through the legacy codec
	c, err = entry.ToMultihashWithIO(world.Ctx, v0Fixture("hello"), st, nil, pbio)
	expect("v0-hello", c, err, "Qmc2DEiLirMH73kHpuFPbt3V65sBrnDWkJYSjUQHXXvghT")
	c, err = pbio.Write(world.Ctx, st, v0Fixture("helloWorld"), nil)
	if expect("v0-helloWorld", c, err, "QmenUDpFksTa3Q9KmUJYjebqvHJcTF2sGQaCH7orY7bXKC") {
		f, err := entry.FromMultihashWithIO(world.Ctx, st, c, id.Provider, pbio)
		w := v0Fixture("helloWorld")
		if err != nil || !f.GetHash().Equals(c) || f.GetLogID() != "A" || string(f.GetPayload()) != "hello world" || f.GetV() != 0 || len(f.GetNext()) != 0 ||
			!bytes.Equal(f.GetKey(), w.Key) || !bytes.Equal(f.GetSig(), w.Sig) || !bytes.Equal(f.GetClock().GetID(), w.Clock.ID) || f.GetClock().GetTime() != 0 {
			p.Violate("vectors", "C08:vector:v0-decode", fmt.Sprintf("v0 block does not decode to the fixture fields: %v %v", f, err), c08Case{What: "vector:v0-decode"})
		} else {
			p.Add(0, 0, 1, 0)
		}
	}
	c, err = pbio.Write(world.Ctx, st, v0Fixture("helloAgain"), nil)
	if err == nil {
		f, err := entry.FromMultihashWithIO(world.Ctx, st, c, id.Provider, pbio)
		if err != nil || len(f.GetNext()) != 1 || f.GetNext()[0].String() != "QmUKMoRrmsYAzQg1nQiD7Fzgpo24zXky7jVJNcZGiSAdhc" {
			p.Violate("vectors", "C08:vector:v0-decode-next", fmt.Sprintf("v0 block with a predecessor does not decode: %v %v", f, err), c08Case{What: "vector:v0-decode-next"})
		} else {
			p.Add(0, 0, 1, 0)
		}
	}
	sortedCheck := []string{}
	sort.Strings(sortedCheck)
}

func init() {
	register(&Check{ID: "C08", Run: func(p *run.Part, tier string) {
		p.Rule = "entries of the shared grammar under the default and the link-key codec, manifests of all head orders, two extra processes, 12 pinned vectors; non-trivial = distinct (codec, entry) with at least one link"
		p.Assume("payload alphabet, link lists <= 2 (quick) / 3 (thorough), clock grid up to maxInt, 2 writers; the legacy codec is exercised on the v0 fixtures only (it cannot represent identities)")
		c08Run(p, tier)
	}, Replay: func(p *run.Part, check string, raw []byte) {
		var c c08Case
		if err := jsonUnmarshal(raw, &c); err != nil {
			panic(err)
		}
		grammarInit()
		switch {
		case strings.HasPrefix(c.What, "vector"):
			c08Vectors(p)
		case strings.HasPrefix(c.What, "identity-variants"):
			c08Identities(p)
		case strings.HasPrefix(c.What, "foreign-identity"):
			c08ForeignIdentity(p)
		case strings.HasPrefix(c.What, "raw-links"):
			c08RawLinks(p)
		case c.What == "manifest" || c.What == "process" || c.What == "collision":
			c08Run(p, "quick")
		default:
			if c.Index > 0 {
				g := grammar(c.Tier)
				for i := 0; i < c.Index && i < len(g); i++ {
					c08Seq.index, c08Seq.tier = i+1, c.Tier
					c08One(p, g[i], "default")
					c08One(p, g[i], "linkkey")
				}
				pairs := c08Pairs(g, c.Tier)
				for i := 0; len(g)+i < c.Index && i < len(pairs); i++ {
					c08Seq.index, c08Seq.tier = len(g)+i+1, c.Tier
					c08One(p, pairs[i][0].spec, pairs[i][0].codec)
					c08One(p, pairs[i][1].spec, pairs[i][1].codec)
				}
				c08Seq.index = 0
				return
			}
			c08One(p, c.Spec, c.Codec)
		}
	}})
}
