package seq

import (
	"fmt"
	"sort"

	ipfslog "berty.tech/go-ipfs-log"
	"berty.tech/go-ipfs-log/iface"
	"github.com/ipfs/go-cid"

	"verif/engine/run"
	"verif/engine/seqx"
	"verif/engine/world"
)

func seqxParallel(n int, fn func(i, slot int)) { seqx.ParallelFor(n, 0, fn) }

// Small stored shapes (shared with the fetcher checks).
var Shapes = seqx.Shapes
var ShapeNames = seqx.ShapeNames

var placeVariants = [][]fault{
	{{"clock", "absent"}}, {{"identity.signatures", "absent"}}, {{"identity.signatures", "null"}}, {{"clock", "null"}},
	{{"next", "text"}}, {{"payload", "int1"}}, {{"key", "nonhex"}}, {{"identity", "null"}}, {{"refs", "absent"}},
	{{"clock.time", "neg"}}, {{"clock.id", "absent"}}, {{"v", "text"}}, {{"next", "badlinklist"}}, {{"sig", "absent"}, {"key", "absent"}},
}

func placeCases(tier string) []c12Case {
	var cs []c12Case
	shapes := []string{"chain3", "fork", "diamond"}
	concs := []int{1, 3}
	if tier == "thorough" {
		shapes = ShapeNames
		concs = []int{1, 2, 3, 16}
	}
	for _, sh := range shapes {
		w := seqx.Replay(CfgDef3, Shapes[sh])
		n := w.Logs[0].Len()
		for pos := 0; pos < n; pos++ {
			for vi := range placeVariants {
				for _, ld := range []string{"multihash", "entryhash", "json", "entry"} {
					for _, cc := range concs {
						cs = append(cs, c12Case{Kind: "place", Shape: sh, Pos: pos, Faults: placeVariants[vi], Loader: ld, Conc: cc})
					}
				}
			}
			// truncated block and alien map
			for _, ld := range []string{"multihash", "entryhash", "json", "entry"} {
				cs = append(cs, c12Case{Kind: "place", Shape: sh, Pos: pos, Base: "truncated", Loader: ld, Conc: 1})
				cs = append(cs, c12Case{Kind: "place", Shape: sh, Pos: pos, Base: "alienmap", Loader: ld, Conc: 1})
			}
		}
	}
	return cs
}

func placeOne(p *run.Part, cc c12Case) {
	w := seqx.Replay(CfgDef3, Shapes[cc.Shape])
	l := w.Logs[0]
	vals := l.Values().Slice()
	if cc.Pos >= len(vals) {
		return
	}
	mh, err := l.ToMultihash(world.Ctx)
	if err != nil {
		panic(err)
	}
	bad := vals[cc.Pos]
	var raw []byte
	switch cc.Base {
	case "truncated":
		b, _ := w.St.Raw(bad.GetHash())
		raw = b[:len(b)/2]
	case "alienmap":
		raw = cborEnc(map[string]interface{}{"alien": int64(1)})
	default:
		t, ok := applyFaults(genericEntry(bad), cc.Faults)
		if !ok {
			return
		}
		raw = cborEnc(t)
	}
	w.St.Subst[bad.GetHash().KeyString()] = raw
	// does the variant decode at all? (decides whether the bad block is skipped or appears as an entry)
	decodes := false
	run.Safe(func() {
		if nd, err := decodeBlock(bad.GetHash(), raw); err == nil {
			if e, err := defaultIO().DecodeRawEntry(nd, bad.GetHash(), world.IDs[0].Provider); err == nil && e != nil {
				decodes = true
			}
		}
	})
	heads := l.Heads().Slice()
	byHash := map[string]iface.IPFSLogEntry{}
	for _, e := range vals {
		byHash[e.GetHash().String()] = e
	}
	var start []cid.Cid
	switch cc.Loader {
	case "entryhash":
		start = []cid.Cid{heads[0].GetHash()}
	default:
		for _, h := range heads {
			start = append(start, h.GetHash())
		}
	}
	// reference: entries reachable from the start hashes without passing through the bad block
	reach := map[string]bool{}
	stack := append([]cid.Cid{}, start...)
	for len(stack) > 0 {
		c := stack[len(stack)-1]
		stack = stack[:len(stack)-1]
		k := c.String()
		if reach[k] || k == bad.GetHash().String() {
			continue
		}
		e, ok := byHash[k]
		if !ok {
			continue
		}
		reach[k] = true
		stack = append(stack, e.GetNext()...)
		stack = append(stack, e.GetRefs()...)
	}
	p.Add(0, 1, 0, 1)
	var got *ipfslog.IPFSLog
	var lerr error
	pv, stk := run.Safe(func() {
		lo := &ipfslog.LogOptions{ID: "X"}
		switch cc.Loader {
		case "multihash":
			got, lerr = ipfslog.NewFromMultihash(world.Ctx, w.St, world.IDs[0], mh, lo, &ipfslog.FetchOptions{Concurrency: cc.Conc})
		case "entryhash":
			got, lerr = ipfslog.NewFromEntryHash(world.Ctx, w.St, world.IDs[0], start[0], lo, &ipfslog.FetchOptions{Concurrency: cc.Conc})
		case "json":
			got, lerr = ipfslog.NewFromJSON(world.Ctx, w.St, world.IDs[0], &iface.JSONLog{ID: "X", Heads: start}, lo, &iface.FetchOptions{Concurrency: cc.Conc})
		case "entry":
			got, lerr = ipfslog.NewFromEntry(world.Ctx, w.St, world.IDs[0], heads, lo, &iface.FetchOptions{Concurrency: cc.Conc})
		}
		if lerr == nil && got != nil {
			_ = got.Values()
			_ = got.Heads()
		}
	})
	desc := fmt.Sprintf("shape %s, bad block at position %d (%s %v), loader %s, concurrency %d", cc.Shape, cc.Pos, cc.Base, cc.Faults, cc.Loader, cc.Conc)
	if pv != nil {
		p.Violate("place", "C12:load-panic:"+siteKey(stk), fmt.Sprintf("%s: the loader panicked: %v at %s", desc, pv, stk), cc)
		return
	}
	if lerr != nil {
		p.Violate("place", "C12:load-error:"+cc.Loader, fmt.Sprintf("%s: the loader failed instead of skipping the bad block: %v", desc, lerr), cc)
		return
	}
	have := map[string]bool{}
	for _, e := range got.GetEntries().Slice() {
		have[e.GetHash().String()] = true
	}
	var missing, extra []string
	for k := range reach {
		if !have[k] {
			missing = append(missing, string(byHash[k].GetPayload()))
		}
	}
	supplied := map[string]bool{}
	if cc.Loader == "entry" {
		for _, h := range heads {
			supplied[h.GetHash().String()] = true // entries the caller handed in are kept as given
		}
	}
	for k := range have {
		if !reach[k] && !supplied[k] && !(decodes && k == bad.GetHash().String()) {
			if decodes {
				continue // a bad block that still decodes may legitimately lead elsewhere through its (possibly altered) links
			}
			extra = append(extra, k)
		}
	}
	sort.Strings(missing)
	if len(missing) > 0 {
		p.Violate("place", "C12:load-lost-history:"+cc.Loader, fmt.Sprintf("%s: entries %v are reachable without the bad block but were not loaded", desc, missing), cc)
		return
	}
	if len(extra) > 0 {
		p.Violate("place", "C12:load-extra:"+cc.Loader, fmt.Sprintf("%s: loaded %d entries that are not reachable", desc, len(extra)), cc)
		return
	}
	p.Add(0, 0, 1, 0)
	p.Nontriv(desc)
}
