package seq

import (
	"berty.tech/go-ipfs-log/enc"
	"berty.tech/go-ipfs-log/io/cbor"
	"bytes"
	"crypto/sha256"
	"encoding/base64"
	"encoding/hex"
	"fmt"
	"strings"

	ipfslog "berty.tech/go-ipfs-log"
	"berty.tech/go-ipfs-log/entry"
	"berty.tech/go-ipfs-log/iface"
	"github.com/ipfs/go-cid"
	format "github.com/ipfs/go-ipld-format"
	mbase "github.com/multiformats/go-multibase"

	"verif/engine/run"
	"verif/engine/seqx"
	"verif/engine/store"
	"verif/engine/world"
)

// C18 — with a link key, stored blocks never reveal the log's structure.
//
// Every grammar entry is written under each writer key situation {no key, K1, K2} and read
// under each reader situation {no key, K1, K2}. For a keyed writer: the stored bytes contain
// no predecessor/reference identifier (binary CID, multihash, base58btc/base32/base36 text),
// the node exposes no IPLD links, the same-key reader recovers identical next/refs and the
// entry verifies and merges into a log configured with that key; a reader with no key gets
// no links; a reader with another key gets an error or no links; an entry without links is
// stored without the encrypted field. For an unkeyed writer every reader sees the links.

type c18Case struct {
	Spec   entrySpec `json:"spec"`
	Writer string    `json:"writer_key"`
	Reader string    `json:"reader_key"`
	What   string    `json:"what"`
}

func keyedIO(name string) iface.IO {
	if name == "none" {
		return defaultIO()
	}
	return linkKeyIO(name)
}

func textForms(c cid.Cid) [][]byte {
	var out [][]byte
	for _, b := range []mbase.Encoding{mbase.Base58BTC, mbase.Base32, mbase.Base36, mbase.Base64, mbase.Base16} {
		s, err := c.StringOfBase(b)
		if err == nil && len(s) > 8 {
			out = append(out, []byte(s))
			out = append(out, []byte(s[1:])) // without the multibase prefix
		}
	}
	if c.Version() == 0 {
		out = append(out, []byte(c.String()))
	}
	return out
}

func c18One(p *run.Part, spec entrySpec, wk string) {
	st := store.New()
	wio := keyedIO(wk)
	viol := func(rk, key, what string) {
		p.Violate("linkkey", "C18:"+key, fmt.Sprintf("writer key %s, reader key %s, entry %s: %s", wk, rk, spec, what), c18Case{Spec: spec, Writer: wk, Reader: rk, What: key})
	}
	e, err := spec.build(st, wio)
	p.Add(1, 0, 0, 1)
	if err != nil {
		viol("-", "create-failed", err.Error())
		return
	}
	wantNext, wantRefs := e.GetNext(), e.GetRefs()
	hasLinks := len(wantNext)+len(wantRefs) > 0
	if wk != "none" && hasLinks {
		// the other form in which the library writes an entry: without its signature (CreateEntryOptions.PreSigned).
		// Whatever the form, a keyed codec never stores the links in clear.
		st2 := store.New()
		pre, perr := wio.(iface.IOPreSign).PreSign(e)
		if perr == nil {
			if h2, err := entry.ToMultihashWithIO(world.Ctx, pre, st2, &iface.CreateEntryOptions{PreSigned: true}, wio); err == nil {
				if raw2, ok := st2.Raw(h2); ok {
					if nd2, err := store.Decode(h2, raw2); err == nil {
						if n := len(nd2.Links()); n != 0 {
							viol("-", "leak:ipld-links:unsigned-form", fmt.Sprintf("the entry written without its signature exposes %d traversable links", n))
						}
						for _, l := range append(append([]cid.Cid{}, wantNext...), wantRefs...) {
							if bytes.Contains(raw2, l.Bytes()) {
								viol("-", "leak:binary-cid:unsigned-form", fmt.Sprintf("the entry written without its signature contains the binary identifier of link %s", l))
								break
							}
						}
					}
				}
			}
		}
	}
	if wk != "none" && hasLinks {
		// the entry object is written once more by code that knows nothing of the key (Entry.ToMultihash uses the default
		// codec: re-checking a hash, pinning after the fact): a sealed entry stays sealed whoever writes it
		st3 := store.New()
		if h3, err := e.(*entry.Entry).ToMultihash(world.Ctx, st3, nil); err == nil {
			if raw3, ok := st3.Raw(h3); ok {
				if nd3, err := store.Decode(h3, raw3); err == nil {
					if n := len(nd3.Links()); n != 0 {
						viol("-", "leak:ipld-links:rewritten-by-default-codec", fmt.Sprintf("the keyed entry written again through the default codec exposes %d traversable links", n))
					}
				}
			}
		}
	}
	raw, ok := st.Raw(e.GetHash())
	if !ok {
		viol("-", "block-missing", "entry block not stored")
		return
	}
	nd, err := store.Decode(e.GetHash(), raw)
	if err != nil {
		viol("-", "block-undecodable", err.Error())
		return
	}
	if wk != "none" {
		for _, l := range append(append([]cid.Cid{}, wantNext...), wantRefs...) {
			if bytes.Contains(raw, l.Bytes()) {
				viol("-", "leak:binary-cid", fmt.Sprintf("stored block contains the binary identifier of link %s", l))
			} else if bytes.Contains(raw, []byte(l.Hash())) {
				viol("-", "leak:multihash", fmt.Sprintf("stored block contains the multihash of link %s", l))
			}
			for _, t := range textForms(l) {
				if bytes.Contains(raw, t) {
					viol("-", "leak:text-cid", fmt.Sprintf("stored block contains a text form of link %s", l))
				}
			}
		}
		// ... nor a recognisable part of one, in the block itself or inside any text field once its base64 / hex
		// armour is removed (a nonce, a tag or an "associated data" field derived from a link is stored in clear)
		views := blockViews(raw, nd)
	partial:
		for _, l := range append(append([]cid.Cid{}, wantNext...), wantRefs...) {
			forms := append([][]byte{l.Bytes(), []byte(l.Hash())}, textForms(l)...)
			for _, f := range forms {
				for i := 0; i+leakWindow <= len(f); i++ {
					for vi, v := range views {
						if bytes.Contains(v.b, f[i:i+leakWindow]) {
							viol("-", "leak:part-of-identifier", fmt.Sprintf("%s of the stored block contains %d consecutive bytes (%q) of an identifier of link %s", v.name, leakWindow, f[i:i+leakWindow], l))
							_ = vi
							break partial
						}
					}
				}
			}
		}
		if n := len(nd.Links()); n != 0 {
			viol("-", "leak:ipld-links", fmt.Sprintf("stored node exposes %d traversable links", n))
		}
		_, _, errEnc := nd.Resolve([]string{"enc_links"})
		if !hasLinks && errEnc == nil {
			viol("-", "encrypted-field-without-links", "an entry without links is stored with an encrypted-links field")
		}
		if hasLinks && errEnc != nil {
			viol("-", "no-encrypted-field", "an entry with links is stored without the encrypted-links field")
		}
	}
	// another codec is derived from the writer's (a second log with another key, configured from the first one's
	// codec): the writer's codec object must stay what it was; it is used below as the reader "own"
	if wc, ok := wio.(*cbor.IOCbor); ok && wk != "none" {
		k := sha256.Sum256([]byte("a third key"))
		if sk, err := enc.NewSecretbox(k[:]); err == nil {
			_ = wc.ApplyOptions(&cbor.Options{LinkKey: sk})
		}
	}
	readers := []string{"none", "K1", "K2", "own"}
	if wk == "K1" && hasLinks {
		// keys one bit away from the writer's, at the first, a middle and the last byte
		readers = append(readers, "K1^0", "K1^15", "K1^31")
	}
	for _, rk := range readers {
		var rio iface.IO
		if rk == "own" {
			if wk == "none" {
				continue
			}
			rio, rk = wio, wk // the writer's own codec object, judged like any reader holding the writer's key
		} else {
			rio = keyedIO(rk)
		}
		d, err := entry.FromMultihashWithIO(world.Ctx, st, e.GetHash(), world.IDs[spec.Writer].Provider, rio)
		p.Add(0, 1, 0, 1)
		switch {
		case wk == "none" || rk == wk:
			if err != nil {
				viol(rk, "same-key-read-failed", "reader holding the writer's key cannot read the entry: "+err.Error())
				continue
			}
			if !eqCids(d.GetNext(), wantNext) || !eqCids(d.GetRefs(), wantRefs) {
				viol(rk, "same-key-links-differ", fmt.Sprintf("reader recovered next=%v refs=%v, written next=%v refs=%v", d.GetNext(), d.GetRefs(), wantNext, wantRefs))
				continue
			}
			if f := fieldDiff(e, d); f != "" {
				viol(rk, "same-key-field-differs:"+f, "field "+f+" differs after read-back")
				continue
			}
			if rk == wk {
				if err := d.Verify(world.IDs[spec.Writer].Provider, rio); err != nil {
					key := "same-key-verify-failed"
					if hasLinks {
						key += ":with-links"
					}
					viol(rk, key, "the entry read back with the writer's key does not verify: "+err.Error())
					continue
				}
				if spec.LogID == "X" {
					if msg := mergeInto(st, spec.Writer, d, rio); msg != "" {
						viol(rk, "same-key-merge-failed", msg)
						continue
					}
				}
			}
		case rk == "none":
			if err != nil {
				continue // an error is also "no links obtained"
			}
			if len(d.GetNext())+len(d.GetRefs()) != 0 {
				viol(rk, "keyless-reader-got-links", fmt.Sprintf("reader without key obtained next=%v refs=%v", d.GetNext(), d.GetRefs()))
				continue
			}
		default:
			if err != nil {
				continue
			}
			if len(d.GetNext())+len(d.GetRefs()) != 0 {
				viol(rk, "other-key-reader-got-links", fmt.Sprintf("reader with a different key obtained next=%v refs=%v", d.GetNext(), d.GetRefs()))
				continue
			}
		}
		p.Add(0, 0, 1, 0)
	}
	if hasLinks && wk != "none" {
		p.Nontriv(wk + spec.String())
	}
}

// c18Logs: the property is about every block a log configured with a link key writes, whichever way the log
// object was constructed. A keyed log is built (appends with skip references, a merge), re-opened through each
// of the four loaders with the keyed codec given in LogOptions only (and also in FetchOptions), appended to
// again, and every entry block then in the store is examined.
func c18Logs(p *run.Part) {
	for _, variant := range []string{"logopts-only", "both"} {
		for _, loader := range []string{"none", "multihash", "entryhash", "json", "entry"} {
			st := store.New()
			kio := linkKeyIO("K1")
			cc := c18Case{Writer: "K1", Reader: "K1", What: "log:" + loader + ":" + variant}
			viol := func(key, what string) {
				p.Violate("linkkey-log", "C18:log:"+key, fmt.Sprintf("keyed log re-opened through %s (%s): %s", loader, variant, what), cc)
			}
			a, err := ipfslog.NewLog(st, world.IDs[0], &ipfslog.LogOptions{ID: "X", IO: kio})
			if err != nil {
				panic(err)
			}
			b, _ := ipfslog.NewLog(st, world.IDs[1], &ipfslog.LogOptions{ID: "X", IO: kio})
			app := func(l *ipfslog.IPFSLog, s string) {
				if _, err := l.Append(world.Ctx, []byte(s), &ipfslog.AppendOptions{PointerCount: 4}); err != nil {
					viol("append-failed", err.Error())
				}
			}
			for i := 0; i < 4; i++ {
				app(a, fmt.Sprintf("a%d", i))
			}
			app(b, "b0")
			if _, err := a.Join(b, -1); err != nil {
				viol("merge-failed", "merging two logs of the same key: "+err.Error())
				continue
			}
			app(a, "a4")
			l := a
			if loader != "none" {
				lo := &ipfslog.LogOptions{ID: "X", IO: kio}
				var fio iface.IO
				if variant == "both" {
					fio = kio
				}
				heads := a.Heads().Slice()
				switch loader {
				case "multihash":
					mh, err := a.ToMultihash(world.Ctx)
					if err != nil {
						viol("publish-failed", err.Error())
						continue
					}
					l, err = ipfslog.NewFromMultihash(world.Ctx, st, world.IDs[0], mh, lo, &ipfslog.FetchOptions{})
				case "entryhash":
					l, err = ipfslog.NewFromEntryHash(world.Ctx, st, world.IDs[0], heads[0].GetHash(), lo, &ipfslog.FetchOptions{})
				case "json":
					l, err = ipfslog.NewFromJSON(world.Ctx, st, world.IDs[0], a.ToJSONLog(), lo, &iface.FetchOptions{IO: fio})
				case "entry":
					l, err = ipfslog.NewFromEntry(world.Ctx, st, world.IDs[0], heads, lo, &iface.FetchOptions{IO: fio})
				}
				if err != nil || l == nil {
					viol("reopen-failed", fmt.Sprint(err))
					continue
				}
				if l.Len() != a.Len() {
					viol("reopen-incomplete", fmt.Sprintf("the re-opened log holds %d of %d entries", l.Len(), a.Len()))
				}
			}
			app(l, "c0")
			app(l, "c1")
			p.Add(1, 1, 0, 1)
			// every entry of the log as the keyed reader sees it, against the bytes stored for it
			leaks := 0
			for _, e := range l.Values().Slice() {
				raw, ok := st.Raw(e.GetHash())
				if !ok {
					viol("block-missing", "no block for entry "+string(e.GetPayload()))
					continue
				}
				nd, err := store.Decode(e.GetHash(), raw)
				if err != nil {
					viol("block-undecodable", err.Error())
					continue
				}
				if n := len(nd.Links()); n != 0 {
					leaks++
					viol("leak:ipld-links", fmt.Sprintf("the block of entry %s exposes %d traversable links", string(e.GetPayload()), n))
				}
				for _, lk := range append(append([]cid.Cid{}, e.GetNext()...), e.GetRefs()...) {
					if bytes.Contains(raw, lk.Bytes()) || bytes.Contains(raw, []byte(lk.Hash())) {
						leaks++
						viol("leak:binary-cid", fmt.Sprintf("the block of entry %s contains the identifier of one of its links", string(e.GetPayload())))
					}
					for _, t := range textForms(lk) {
						if bytes.Contains(raw, t) {
							leaks++
							viol("leak:text-cid", fmt.Sprintf("the block of entry %s contains a text form of one of its links", string(e.GetPayload())))
						}
					}
				}
				dumpBefore := seqx.DumpEntry(e)
				verr := e.Verify(world.IDs[0].Provider, kio)
				if d := seqx.DumpEntry(e); d != dumpBefore {
					// verification seals the links again on its way to the signed bytes: on a copy, never on the entry it was given
					viol("verify-mutated-the-entry", fmt.Sprintf("verifying entry %s changed the entry itself:\n before %s\n after  %s", string(e.GetPayload()), dumpBefore, d))
				}
				if err := verr; err != nil {
					viol("verify-failed", fmt.Sprintf("entry %s of the keyed log does not verify with the key: %v", string(e.GetPayload()), err))
				}
			}
			// the whole log merges into a fresh log of the same key
			dst, _ := ipfslog.NewLog(st, world.IDs[2], &ipfslog.LogOptions{ID: "X", IO: kio})
			if _, err := dst.Join(l, -1); err != nil {
				viol("merge-failed", "the re-opened and extended log does not merge into a log of the same key: "+err.Error())
			} else if dst.Len() != l.Len() {
				viol("merge-incomplete", fmt.Sprintf("merged %d of %d entries", dst.Len(), l.Len()))
			}
			if leaks == 0 {
				p.Add(0, 0, 1, 0)
			}
			p.Nontriv(cc.What)
		}
	}
}

// mergeInto merges a one-entry source log holding e into an empty log with the same codec.
func mergeInto(st *store.Store, writer int, e iface.IPFSLogEntry, io iface.IO) string {
	es := entry.NewOrderedMap()
	es.Set(e.GetHash().String(), e)
	src, err := ipfslog.NewLog(st, world.IDs[writer], &ipfslog.LogOptions{ID: "X", Entries: es, Heads: []iface.IPFSLogEntry{e}, IO: io})
	if err != nil {
		return "cannot build source log: " + err.Error()
	}
	dst, err := ipfslog.NewLog(st, world.IDs[1], &ipfslog.LogOptions{ID: "X", IO: io})
	if err != nil {
		return "cannot build destination log: " + err.Error()
	}
	var jerr error
	pv, stack := run.Safe(func() { _, jerr = dst.Join(src, -1) })
	if pv != nil {
		return fmt.Sprintf("merge panicked: %v at %s", pv, stack)
	}
	if jerr != nil {
		return "merging the entry into a log configured with the same key failed: " + jerr.Error()
	}
	if _, ok := dst.Get(e.GetHash()); !ok {
		return "merge succeeded but the entry is not in the destination"
	}
	return ""
}

func init() {
	register(&Check{ID: "C18", Run: func(p *run.Part, tier string) {
		p.Rule = "grammar entries x writer key {none,K1,K2} x reader key {none,K1,K2}; non-trivial = distinct (writer key, entry) with links under a key"
		p.Assume("secrecy of NaCl secretbox is assumed; what is decided is that no identifier of a link (binary CID, multihash, base58/32/36/64/16 text) and no IPLD link is present in the stored bytes, and the read/verify/merge behaviour per key situation")
		g := grammar(tier)
		dl := Budget(tier)
		expired := false
		parallelFor(len(g), func(i int) {
			if dl.Expired() {
				expired = true
				return
			}
			for _, wk := range []string{"none", "K1", "K2"} {
				c18One(p, g[i], wk)
			}
		})
		if expired {
			p.Inexhaustive("deadline")
		}
		c18Logs(p)
		p.SetExtra("grammar_entries", len(g))
		p.Sample(4, c18Case{Writer: "K1", Reader: "K1", What: "log:entry:logopts-only (keyed log re-opened with NewFromEntry, codec given in LogOptions only, then appended to)"})
		p.Sample(4, c18Case{Spec: g[len(g)-1], Writer: "K1", Reader: "K2", What: "other key obtains no links"})
		p.Sample(4, c18Case{Spec: g[len(g)/2], Writer: "K1", Reader: "K1", What: "same key recovers links, verifies, merges"})
	}, Replay: func(p *run.Part, check string, raw []byte) {
		var c c18Case
		if err := jsonUnmarshal(raw, &c); err != nil {
			panic(err)
		}
		grammarInit()
		if strings.HasPrefix(c.What, "log:") {
			c18Logs(p)
			return
		}
		c18One(p, c.Spec, c.Writer)
	}})
}

// leakWindow: this many consecutive bytes of an identifier (of its binary form, its digest or one of its text
// forms) found in a block are a leak; eight bytes of a digest do not turn up in ciphertext by chance (2^-64 per position).
const leakWindow = 8

type blockView struct {
	name string
	b    []byte
}

// blockViews: the raw block, and every text field of the decoded node with its base64 (all four alphabets) and hex
// armour removed.
func blockViews(raw []byte, nd format.Node) []blockView {
	vs := []blockView{{"the raw bytes", raw}}
	for _, pth := range nd.Tree("", -1) {
		v, _, err := nd.Resolve(strings.Split(pth, "/"))
		if err != nil {
			continue
		}
		str, ok := v.(string)
		if !ok || len(str) < leakWindow {
			continue
		}
		for _, enc := range []*base64.Encoding{base64.StdEncoding, base64.RawStdEncoding, base64.URLEncoding, base64.RawURLEncoding} {
			if b, err := enc.DecodeString(str); err == nil {
				vs = append(vs, blockView{"field " + pth + " (base64-decoded)", b})
				break
			}
		}
		if b, err := hex.DecodeString(str); err == nil {
			vs = append(vs, blockView{"field " + pth + " (hex-decoded)", b})
		}
	}
	return vs
}
