package seq

import (
	"bytes"
	"fmt"

	ipfslog "berty.tech/go-ipfs-log"
	"berty.tech/go-ipfs-log/entry"
	"berty.tech/go-ipfs-log/iface"
	"github.com/ipfs/go-cid"
	mbase "github.com/multiformats/go-multibase"

	"verif/engine/run"
	"verif/engine/store"
	"verif/engine/world"
)

// C18 — with a link key, stored blocks never reveal the log's structure.
//
// Every grammar entry is written under each writer key situation {no key, K1, K2} and read
// under each reader situation {no key, K1, K2}. For a keyed writer: the stored bytes contain
// no predecessor/reference identifier (binary CID, multihash, base58btc/base32/base36 text),
// the node exposes no IPLD links, the same-key reader recovers identical next/refs and the
// entry verifies and merges into a log configured with that key; a reader with no key gets
// no links; a reader with another key gets an error or no links; an entry without links is
// stored without the encrypted field. For an unkeyed writer every reader sees the links.

type c18Case struct {
	Spec   entrySpec `json:"spec"`
	Writer string    `json:"writer_key"`
	Reader string    `json:"reader_key"`
	What   string    `json:"what"`
}

func keyedIO(name string) iface.IO {
	if name == "none" {
		return defaultIO()
	}
	return linkKeyIO(name)
}

func textForms(c cid.Cid) [][]byte {
	var out [][]byte
	for _, b := range []mbase.Encoding{mbase.Base58BTC, mbase.Base32, mbase.Base36, mbase.Base64, mbase.Base16} {
		s, err := c.StringOfBase(b)
		if err == nil && len(s) > 8 {
			out = append(out, []byte(s))
			out = append(out, []byte(s[1:])) // without the multibase prefix
		}
	}
	if c.Version() == 0 {
		out = append(out, []byte(c.String()))
	}
	return out
}

func c18One(p *run.Part, spec entrySpec, wk string) {
	st := store.New()
	wio := keyedIO(wk)
	viol := func(rk, key, what string) {
		p.Violate("linkkey", "C18:"+key, fmt.Sprintf("writer key %s, reader key %s, entry %s: %s", wk, rk, spec, what), c18Case{Spec: spec, Writer: wk, Reader: rk, What: key})
	}
	e, err := spec.build(st, wio)
	p.Add(1, 0, 0, 1)
	if err != nil {
		viol("-", "create-failed", err.Error())
		return
	}
	wantNext, wantRefs := e.GetNext(), e.GetRefs()
	hasLinks := len(wantNext)+len(wantRefs) > 0
	raw, ok := st.Raw(e.GetHash())
	if !ok {
		viol("-", "block-missing", "entry block not stored")
		return
	}
	nd, err := store.Decode(e.GetHash(), raw)
	if err != nil {
		viol("-", "block-undecodable", err.Error())
		return
	}
	if wk != "none" {
		for _, l := range append(append([]cid.Cid{}, wantNext...), wantRefs...) {
			if bytes.Contains(raw, l.Bytes()) {
				viol("-", "leak:binary-cid", fmt.Sprintf("stored block contains the binary identifier of link %s", l))
			} else if bytes.Contains(raw, []byte(l.Hash())) {
				viol("-", "leak:multihash", fmt.Sprintf("stored block contains the multihash of link %s", l))
			}
			for _, t := range textForms(l) {
				if bytes.Contains(raw, t) {
					viol("-", "leak:text-cid", fmt.Sprintf("stored block contains a text form of link %s", l))
				}
			}
		}
		if n := len(nd.Links()); n != 0 {
			viol("-", "leak:ipld-links", fmt.Sprintf("stored node exposes %d traversable links", n))
		}
		_, _, errEnc := nd.Resolve([]string{"enc_links"})
		if !hasLinks && errEnc == nil {
			viol("-", "encrypted-field-without-links", "an entry without links is stored with an encrypted-links field")
		}
		if hasLinks && errEnc != nil {
			viol("-", "no-encrypted-field", "an entry with links is stored without the encrypted-links field")
		}
	}
	for _, rk := range []string{"none", "K1", "K2"} {
		rio := keyedIO(rk)
		d, err := entry.FromMultihashWithIO(world.Ctx, st, e.GetHash(), world.IDs[spec.Writer].Provider, rio)
		p.Add(0, 1, 0, 1)
		switch {
		case wk == "none" || rk == wk:
			if err != nil {
				viol(rk, "same-key-read-failed", "reader holding the writer's key cannot read the entry: "+err.Error())
				continue
			}
			if !eqCids(d.GetNext(), wantNext) || !eqCids(d.GetRefs(), wantRefs) {
				viol(rk, "same-key-links-differ", fmt.Sprintf("reader recovered next=%v refs=%v, written next=%v refs=%v", d.GetNext(), d.GetRefs(), wantNext, wantRefs))
				continue
			}
			if f := fieldDiff(e, d); f != "" {
				viol(rk, "same-key-field-differs:"+f, "field "+f+" differs after read-back")
				continue
			}
			if rk == wk {
				if err := d.Verify(world.IDs[spec.Writer].Provider, rio); err != nil {
					key := "same-key-verify-failed"
					if hasLinks {
						key += ":with-links"
					}
					viol(rk, key, "the entry read back with the writer's key does not verify: "+err.Error())
					continue
				}
				if spec.LogID == "X" {
					if msg := mergeInto(st, spec.Writer, d, rio); msg != "" {
						viol(rk, "same-key-merge-failed", msg)
						continue
					}
				}
			}
		case rk == "none":
			if err != nil {
				continue // an error is also "no links obtained"
			}
			if len(d.GetNext())+len(d.GetRefs()) != 0 {
				viol(rk, "keyless-reader-got-links", fmt.Sprintf("reader without key obtained next=%v refs=%v", d.GetNext(), d.GetRefs()))
				continue
			}
		default:
			if err != nil {
				continue
			}
			if len(d.GetNext())+len(d.GetRefs()) != 0 {
				viol(rk, "other-key-reader-got-links", fmt.Sprintf("reader with a different key obtained next=%v refs=%v", d.GetNext(), d.GetRefs()))
				continue
			}
		}
		p.Add(0, 0, 1, 0)
	}
	if hasLinks && wk != "none" {
		p.Nontriv(wk + spec.String())
	}
}

// mergeInto merges a one-entry source log holding e into an empty log with the same codec.
func mergeInto(st *store.Store, writer int, e iface.IPFSLogEntry, io iface.IO) string {
	es := entry.NewOrderedMap()
	es.Set(e.GetHash().String(), e)
	src, err := ipfslog.NewLog(st, world.IDs[writer], &ipfslog.LogOptions{ID: "X", Entries: es, Heads: []iface.IPFSLogEntry{e}, IO: io})
	if err != nil {
		return "cannot build source log: " + err.Error()
	}
	dst, err := ipfslog.NewLog(st, world.IDs[1], &ipfslog.LogOptions{ID: "X", IO: io})
	if err != nil {
		return "cannot build destination log: " + err.Error()
	}
	var jerr error
	pv, stack := run.Safe(func() { _, jerr = dst.Join(src, -1) })
	if pv != nil {
		return fmt.Sprintf("merge panicked: %v at %s", pv, stack)
	}
	if jerr != nil {
		return "merging the entry into a log configured with the same key failed: " + jerr.Error()
	}
	if _, ok := dst.Get(e.GetHash()); !ok {
		return "merge succeeded but the entry is not in the destination"
	}
	return ""
}

func init() {
	register(&Check{ID: "C18", Run: func(p *run.Part, tier string) {
		p.Rule = "grammar entries x writer key {none,K1,K2} x reader key {none,K1,K2}; non-trivial = distinct (writer key, entry) with links under a key"
		p.Assume("secrecy of NaCl secretbox is assumed; what is decided is that no identifier of a link (binary CID, multihash, base58/32/36/64/16 text) and no IPLD link is present in the stored bytes, and the read/verify/merge behaviour per key situation")
		g := grammar(tier)
		dl := Budget(tier)
		expired := false
		parallelFor(len(g), func(i int) {
			if dl.Expired() {
				expired = true
				return
			}
			for _, wk := range []string{"none", "K1", "K2"} {
				c18One(p, g[i], wk)
			}
		})
		if expired {
			p.Inexhaustive("deadline")
		}
		p.SetExtra("grammar_entries", len(g))
		p.Sample(4, c18Case{Spec: g[len(g)-1], Writer: "K1", Reader: "K2", What: "other key obtains no links"})
		p.Sample(4, c18Case{Spec: g[len(g)/2], Writer: "K1", Reader: "K1", What: "same key recovers links, verifies, merges"})
	}, Replay: func(p *run.Part, check string, raw []byte) {
		var c c18Case
		if err := jsonUnmarshal(raw, &c); err != nil {
			panic(err)
		}
		grammarInit()
		c18One(p, c.Spec, c.Writer)
	}})
}
