package schd

import (
	"fmt"

	ipfslog "berty.tech/go-ipfs-log"
	"berty.tech/go-ipfs-log/entry"
	"berty.tech/go-ipfs-log/iface"
	"berty.tech/go-ipfs-log/io/cbor"
	"berty.tech/go-ipfs-log/zvsync"

	"verif/engine/sched"
	"verif/engine/world"
)

// C07 (concurrent part): verification is a pure function of the entry, also when several verifications
// and signings run at once. Entries are verified in parallel by Join's workers and by every loader, so
// whatever Verify shares between calls (a pooled buffer, a cached encoder, a scratch field) is shared
// between goroutines. Threads: one verifies a tampered copy (one same-length field changed), one
// verifies the signed original, a third (in the three-thread scenarios) signs a new entry. In every
// schedule the tampered copy is rejected and the original accepted. The library itself has no
// scheduling point on this path today (the scenarios are one or two executions each); the shim's
// sync.Pool, Mutex and friends are what opens the state space as soon as the path starts sharing.

func c07IO() iface.IO {
	io, err := cbor.IO(&entry.Entry{}, &entry.LamportClock{})
	if err != nil {
		panic(err)
	}
	return io
}

type c07Tamper struct {
	name string
	mod  func(e *entry.Entry, other iface.IPFSLogEntry)
}

func c07Tampers() []c07Tamper {
	return []c07Tamper{
		{"payload-byte", func(e *entry.Entry, _ iface.IPFSLogEntry) { e.Payload = []byte("hellp") }},
		{"log-id", func(e *entry.Entry, _ iface.IPFSLogEntry) { e.LogID = "Y" }},
		{"clock-time", func(e *entry.Entry, _ iface.IPFSLogEntry) {
			e.Clock = entry.NewLamportClock(e.GetClock().GetID(), e.GetClock().GetTime()+1)
		}},
		{"next-replaced", func(e *entry.Entry, o iface.IPFSLogEntry) { e.Next = o.GetNext() }},
		{"version", func(e *entry.Entry, _ iface.IPFSLogEntry) { e.V = e.V - 1 }},
	}
}

func c07Scenarios(tier string) []Spec {
	var specs []Spec
	for _, tm := range c07Tampers() {
		for _, threads := range []int{2, 3} {
			tm, threads := tm, threads
			name := fmt.Sprintf("C07/verify(%s)|verify(original)", tm.name)
			if threads == 3 {
				name += "|append"
			}
			specs = append(specs, Spec{Bound: 2, RaceBound: 2, Shards: 1, Sc: sched.Scenario{Name: name, Make: func() *sched.Instance {
				st := NewStore()
				l := world.NewLog(st, 0, nil)
				mustAppend(l, "hella")
				o := mustAppend(l, "hello")
				l2 := world.NewLog(st, 0, nil)
				mustAppend(l2, "other")
				var other iface.IPFSLogEntry = mustAppend(l2, "other2")
				orig := o.(*entry.Entry)
				bad := orig.Copy().(*entry.Entry)
				tm.mod(bad, other)
				io := c07IO()
				var errBad, errOrig, errApp error
				ran := [3]bool{}
				bodies := []func(){
					func() { errBad = bad.Verify(world.IDs[0].Provider, io); ran[0] = true },
					func() { errOrig = orig.Verify(world.IDs[0].Provider, io); ran[1] = true },
				}
				if threads == 3 {
					bodies = append(bodies, func() {
						_, errApp = l2.Append(world.Ctx, []byte("hello"), &ipfslog.AppendOptions{PointerCount: 4})
						ran[2] = true
					})
				}
				return &sched.Instance{Bodies: bodies, Check: func(*zvsync.Result) (string, []sched.Finding) {
					var fs []sched.Finding
					if ran[0] && errBad == nil {
						fs = append(fs, sched.Finding{Key: "accepted-while-verifying-original:" + tm.name, What: "a copy of a signed entry with field " + tm.name + " changed verified under the original's signature while the original was being verified on another goroutine"})
					}
					if ran[1] && errOrig != nil {
						fs = append(fs, sched.Finding{Key: "original-rejected", What: "the signed original was rejected while another entry was being verified: " + errOrig.Error()})
					}
					if errApp != nil {
						fs = append(fs, sched.Finding{Key: "append-failed", What: "an append running next to two verifications failed: " + errApp.Error()})
					}
					return fmt.Sprintf("bad-rejected=%v orig-accepted=%v", errBad != nil, errOrig == nil), fs
				}}
			}}})
		}
	}
	return specs
}

func init() { register(&Check{ID: "C07", Scenarios: c07Scenarios}) }
