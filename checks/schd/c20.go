package schd

import (
	"bytes"
	"context"
	"fmt"
	"sort"

	idp "berty.tech/go-ipfs-log/identityprovider"
	"berty.tech/go-ipfs-log/keystore"
	lrushim "berty.tech/go-ipfs-log/zvlru"
	"berty.tech/go-ipfs-log/zvsync"
	ds "github.com/ipfs/go-datastore"
	"github.com/libp2p/go-libp2p/core/crypto"

	"verif/engine/sched"
	"verif/engine/world"
)

// C20 (concurrent part): one keystore instance used from several goroutines. The keystore itself takes no lock; it
// relies on the cache's and the datastore's own. Every cache operation (engine/zvlru) and every datastore operation
// (hookedDS) is a scheduling point, and the cache holds TWO keys instead of 128, so that "evicted between the check and
// the use" is a one-preemption schedule. In every schedule: GetKey of a created id returns that key, HasKey says
// true, no key in the datastore is ever replaced, and identities created for one id are equal.

type hookedDS struct {
	*ds.MapDatastore
}

func (h hookedDS) Get(ctx context.Context, k ds.Key) ([]byte, error) {
	zvsync.Access("ds:"+k.String(), false)
	return h.MapDatastore.Get(ctx, k)
}
func (h hookedDS) Has(ctx context.Context, k ds.Key) (bool, error) {
	zvsync.Access("ds:"+k.String(), false)
	return h.MapDatastore.Has(ctx, k)
}
func (h hookedDS) Put(ctx context.Context, k ds.Key, v []byte) error {
	zvsync.Access("ds:"+k.String(), true)
	return h.MapDatastore.Put(ctx, k, v)
}

type ksWorldC struct {
	d    hookedDS
	ks   *keystore.Keystore
	raw  map[string][]byte
	errs []string
}

//go:norace
func (w *ksWorldC) note(s string) { w.errs = append(w.errs, s) }

func rawKey(k crypto.PrivKey) []byte { b, _ := k.Raw(); return b }

func newKsWorldC(ids ...string) *ksWorldC {
	lrushim.Capacity = 2
	w := &ksWorldC{d: hookedDS{ds.NewMapDatastore()}, raw: map[string][]byte{}}
	k, err := keystore.NewKeystore(w.d)
	if err != nil {
		panic(err)
	}
	w.ks = k
	for _, id := range ids {
		key, err := k.CreateKey(world.Ctx, id)
		if err != nil {
			panic(err)
		}
		w.raw[id] = rawKey(key)
	}
	return w
}

func (w *ksWorldC) get(id string) {
	k, err := w.ks.GetKey(world.Ctx, id)
	if err != nil {
		w.note(fmt.Sprintf("get-lost-key: GetKey(%s) failed for a key that exists: %v", id, err))
		return
	}
	if !bytes.Equal(rawKey(k), w.raw[id]) {
		w.note(fmt.Sprintf("get-different-key: GetKey(%s) returned another key", id))
	}
}

func (w *ksWorldC) has(id string) {
	if ok, err := w.ks.HasKey(world.Ctx, id); !ok || err != nil {
		w.note(fmt.Sprintf("has-false-for-created: HasKey(%s) = %v, %v", id, ok, err))
	}
}

func c20Scenarios(tier string) []Spec {
	b := 2
	if tier == "thorough" {
		b = 3
	}
	type sc struct {
		name   string
		ids    []string
		bodies func(w *ksWorldC, idents *[2]*idp.Identity) []func()
	}
	ident := func(w *ksWorldC, slot int, id string, out *[2]*idp.Identity) {
		i, err := idp.CreateIdentity(world.Ctx, &idp.CreateIdentityOptions{Keystore: w.ks, ID: id, Type: "orbitdb"})
		if err != nil {
			w.note("identity-failed: " + err.Error())
			return
		}
		out[slot] = i
	}
	scs := []sc{
		{"get(a)|get(b);get(c);get(d)", []string{"a", "b", "c", "d"}, func(w *ksWorldC, _ *[2]*idp.Identity) []func() {
			return []func(){func() { w.get("a") }, func() { w.get("b"); w.get("c"); w.get("d") }}
		}},
		{"has(a);get(a)|get(b);get(c)", []string{"a", "b", "c"}, func(w *ksWorldC, _ *[2]*idp.Identity) []func() {
			return []func(){func() { w.has("a"); w.get("a") }, func() { w.get("b"); w.get("c") }}
		}},
		{"get(a);get(a)|create(e);create(f)", []string{"a", "b"}, func(w *ksWorldC, _ *[2]*idp.Identity) []func() {
			mk := func(id string) {
				if _, err := w.ks.CreateKey(world.Ctx, id); err != nil {
					w.note("create-failed: " + err.Error())
				}
			}
			return []func(){func() { w.get("a"); w.get("a") }, func() { mk("e"); mk("f") }}
		}},
		{"identity(a)|get(b);get(c)", []string{"a", "b", "c"}, func(w *ksWorldC, ids *[2]*idp.Identity) []func() {
			// the identity of a exists already (its keys are in the datastore): creating it again must find them
			return []func(){func() { ident(w, 0, "a", ids) }, func() { w.get("b"); w.get("c") }}
		}},
		{"identity(a)|identity(a)", []string{"a", "b"}, func(w *ksWorldC, ids *[2]*idp.Identity) []func() {
			return []func(){func() { ident(w, 0, "a", ids) }, func() { ident(w, 1, "a", ids) }}
		}},
	}
	var specs []Spec
	for _, s := range scs {
		s := s
		specs = append(specs, Spec{Bound: b, RaceBound: 1, Shards: 2, Sc: sched.Scenario{Name: "C20/" + s.name, Make: func() *sched.Instance {
			w := newKsWorldC(s.ids...)
			// the identity of "a" is created once up front (sequentially): its keys are what later calls must find
			first, err := idp.CreateIdentity(world.Ctx, &idp.CreateIdentityOptions{Keystore: w.ks, ID: "a", Type: "orbitdb"})
			if err != nil {
				panic(err)
			}
			before := map[string][]byte{}
			snapshot := func(m map[string][]byte) {
				for _, id := range append(append([]string{}, s.ids...), first.ID) {
					if v, err := w.d.MapDatastore.Get(world.Ctx, ds.NewKey(id)); err == nil {
						m[id] = v
					}
				}
			}
			snapshot(before)
			var idents [2]*idp.Identity
			return &sched.Instance{Bodies: s.bodies(w, &idents), Check: func(*zvsync.Result) (string, []sched.Finding) {
				var fs []sched.Finding
				for _, e := range w.errs {
					key := e
					for i, c := range e {
						if c == ':' {
							key = e[:i]
							break
						}
					}
					fs = append(fs, sched.Finding{Key: key, What: e})
				}
				after := map[string][]byte{}
				snapshot(after)
				var changed []string
				for id, v := range before {
					if !bytes.Equal(after[id], v) {
						changed = append(changed, id)
					}
				}
				sort.Strings(changed)
				if len(changed) > 0 {
					fs = append(fs, sched.Finding{Key: "stored-key-replaced", What: fmt.Sprintf("the key stored for %v was replaced although it existed", changed)})
				}
				for _, i := range idents {
					if i != nil && (i.ID != first.ID || !bytes.Equal(i.PublicKey, first.PublicKey) || !bytes.Equal(i.Signatures.ID, first.Signatures.ID) || !bytes.Equal(i.Signatures.PublicKey, first.Signatures.PublicKey)) {
						fs = append(fs, sched.Finding{Key: "identity-unstable", What: "CreateIdentity for an id whose identity exists returned a different identity"})
					}
				}
				return fmt.Sprintf("errors=%d", len(w.errs)), fs
			}}
		}}})
	}
	return specs
}

func init() { register(&Check{ID: "C20", Scenarios: c20Scenarios}) }
