//go:build race

package schd

func init() { RaceBuild = true }
