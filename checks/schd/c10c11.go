package schd

import (
	"fmt"
	"sort"
	"strings"
	"time"

	ipfslog "berty.tech/go-ipfs-log"
	"berty.tech/go-ipfs-log/entry"
	"berty.tech/go-ipfs-log/iface"
	"berty.tech/go-ipfs-log/zvsync"
	"github.com/ipfs/go-cid"

	"verif/engine/sched"
	"verif/engine/seqx"
	"verif/engine/store"
	"verif/engine/world"
)

// ---------------------------------------------------------------------------
// C10: a length-limited load returns exactly the most recent entries

// expectLimited computes the statement's answer: all supplied entries plus the most recent
// others in the log's order, min(max(n,k),size) in total.
func expectLimited(s *stored, ls loadSpec, start []cid.Cid) map[string]bool {
	sub := s.reach(start, nil)
	supplied := map[string]bool{}
	switch ls.Loader {
	case "entryhash":
		supplied[start[0].String()] = true
	case "entry":
		for _, h := range s.heads {
			supplied[h.GetHash().String()] = true
		}
	}
	k := len(supplied)
	n := ls.N
	if n < k {
		n = k
	}
	want := map[string]bool{}
	for h := range supplied {
		want[h] = true
	}
	var rest []string // ascending log order
	for _, e := range s.vals {
		h := e.GetHash().String()
		if sub[h] && !supplied[h] {
			rest = append(rest, h)
		}
	}
	m := n - k
	if m > len(rest) {
		m = len(rest)
	}
	for _, h := range rest[len(rest)-m:] {
		want[h] = true
	}
	return want
}

func judgeC10(s *stored, ls loadSpec, st *store.Store, r *loadResult, start []cid.Cid, _ *zvsync.Result) (string, []sched.Finding) {
	if !r.ret {
		return "no-return", []sched.Finding{{Key: "load-did-not-return", What: "the loader did not return"}}
	}
	if r.err != nil {
		return "error", []sched.Finding{{Key: "load-error:" + ls.Loader, What: "loader failed: " + r.err.Error()}}
	}
	want := expectLimited(s, ls, start)
	got := map[string]bool{}
	es := r.log.GetEntries().Slice()
	for _, e := range es {
		got[e.GetHash().String()] = true
	}
	outcome := fmt.Sprintf("%d %v", len(got), sortedPayloads(es))
	var fs []sched.Finding
	if len(got) != len(es) {
		fs = append(fs, sched.Finding{Key: "limited-duplicates:" + ls.Loader, What: "the loaded log holds an entry twice"})
	}
	if len(got) != len(want) || !subset(want, got) {
		cls := "n-positive"
		if ls.N == 0 {
			cls = "n-zero"
		}
		kind := "wrong-entries"
		if len(got) > len(want) {
			kind = "too-many"
		} else if len(got) < len(want) {
			kind = "too-few"
		}
		fs = append(fs, sched.Finding{Key: "limited:" + ls.Loader + ":" + cls + ":" + kind,
			What: fmt.Sprintf("length limit %d: loaded %v (%d), expected the supplied entries plus the most recent others = %v (%d)", ls.N, sortedPayloads(es), len(got), s.names(want), len(want))})
	}
	fs = append(fs, requestFindings(s, st, nil)...)
	return outcome, fs
}

func c10Scenarios(tier string) []Spec {
	shapes := []string{"chain4", "fork", "diamond"}
	concs := []int{1, 2}
	if tier == "thorough" {
		shapes = []string{"chain3", "chain4", "fork", "diamond", "heads3", "stale", "chain6", "oldhead"}
		concs = []int{1, 2, 3}
	}
	var specs []Spec
	for _, sh := range shapes {
		size := len(getStoredLen(sh))
		for _, ld := range []string{"multihash", "entryhash", "json", "entry"} {
			for _, c := range concs {
				if ld == "json" && c > 1 {
					continue // the JSON loader does not forward the concurrency option
				}
				for n := 0; n <= size+1; n++ {
					ls := loadSpec{Shape: sh, Loader: ld, Conc: c, N: n}
					specs = append(specs, Spec{HBCache: true, RaceBound: 0, Shards: 1, Sc: makeLoad("C10", ls, judgeC10)})
				}
			}
		}
	}
	if tier != "thorough" {
		// a two-headed log with one stale head (a short old branch next to a long new one): which block arrives first
		// decides what a limited load has "seen" when it meets the stale head
		for _, ld := range []string{"multihash", "entry"} {
			for _, n := range []int{3} {
				ls := loadSpec{Shape: "oldhead", Loader: ld, Conc: 2, N: n}
				// deviation-bounded (every schedule that departs from the default one at no more than three points):
				// the unbounded space of this shape is 20M states
				specs = append(specs, Spec{DevBound: 3, Shards: 2, NoRace: true, Sc: makeLoad("C10", ls, judgeC10)})
			}
		}
	}
	// the order in which heads are handed over (JSON head list, head entries, a foreign manifest) must not matter
	for _, sh := range []string{"fork", "heads3"} {
		st := getStored(sh)
		size := len(st.vals)
		for pm := 1; pm < factorial(len(st.heads)); pm++ {
			for _, ld := range []string{"json", "entry", "multihash"} {
				for n := 0; n <= size+1; n++ {
					ls := loadSpec{Shape: sh, Loader: ld, Conc: 1, N: n, Perm: pm}
					specs = append(specs, Spec{HBCache: true, RaceBound: 0, Shards: 1, NoRace: true, Sc: makeLoad("C10", ls, judgeC10)})
				}
			}
		}
	}
	// larger stored logs on the default schedule only
	var batch []sched.Scenario
	big := []string{"stale", "chain6", "wide", "heads3"}
	for _, sh := range big {
		size := len(getStoredLen(sh))
		for _, ld := range []string{"multihash", "entryhash", "json", "entry"} {
			for _, c := range []int{1, 3, 16} {
				for n := 0; n <= size+1; n++ {
					batch = append(batch, makeLoad("C10", loadSpec{Shape: sh, Loader: ld, Conc: c, N: n}, judgeC10))
				}
			}
		}
	}
	specs = append(specs, Spec{Name: "C10/larger-logs/default-schedule", Batch: batch, Shards: 4, NoRace: true})
	return specs
}

func getStoredLen(shape string) []struct{} {
	return make([]struct{}, len(getStored(shape).vals))
}

// ---------------------------------------------------------------------------
// C11: fetching tolerates missing, failing and slow blocks and always terminates

func judgeC11(s *stored, ls loadSpec, st *store.Store, r *loadResult, start []cid.Cid, res *zvsync.Result) (string, []sched.Finding) {
	if !r.ret {
		return "no-return", []sched.Finding{{Key: "load-did-not-return", What: "the loader did not return"}}
	}
	if ls.CallerDeadline {
		waited, fired := false, false
		for _, d := range res.TimerQuiescent {
			waited = waited || d == callerDeadline
		}
		for _, d := range res.TimerDurs {
			fired = fired || d == callerDeadline
		}
		if waited && ls.Timeout {
			// every thread of the load was blocked and only the caller's far-away deadline could end the wait:
			// the configured timeout (far shorter) did not bound the load
			return "waited-for-caller-deadline", []sched.Finding{{Key: "fetch-timeout-not-honoured", What: fmt.Sprintf("a load with a configured timeout of 1s under a caller context whose own deadline is %v away ended only when the caller's deadline fired (timers fired: %v)", callerDeadline, res.TimerDurs)}}
		}
		if fired {
			return "caller-deadline-landed-first", nil // the caller gave up: nothing more is promised
		}
	}
	if r.err != nil {
		return "error", []sched.Finding{{Key: "load-error:" + ls.Loader, What: "loader failed instead of skipping faulty blocks: " + r.err.Error()}}
	}
	bad := map[string]bool{}
	excl := map[string]bool{}
	for p := range ls.Faults {
		bad[s.vals[p].GetHash().String()] = true
	}
	for _, p := range ls.Exclude {
		h := s.vals[p].GetHash().String()
		bad[h] = true
		excl[h] = true
	}
	want := s.reach(start, bad)
	var es []iface.IPFSLogEntry
	var fs []sched.Finding
	if ls.Loader == "fetchall" {
		es = r.entries
		seen := map[string]bool{}
		for _, e := range es {
			if e == nil {
				fs = append(fs, sched.Finding{Key: "fetch-nil-entry", What: "FetchAll returned a nil entry"})
				continue
			}
			if seen[e.GetHash().String()] {
				fs = append(fs, sched.Finding{Key: "fetch-duplicates", What: fmt.Sprintf("FetchAll returned %s twice: %v", string(e.GetPayload()), payloads(es))})
			}
			seen[e.GetHash().String()] = true
		}
	} else {
		es = r.log.GetEntries().Slice()
	}
	got := map[string]bool{}
	for _, e := range es {
		if e != nil {
			got[e.GetHash().String()] = true
		}
	}
	if ls.Loader == "entry" {
		// entries the caller handed in are part of the result by definition
		for _, h := range s.heads {
			delete(got, h.GetHash().String())
			delete(want, h.GetHash().String())
		}
	}
	outcome := fmt.Sprintf("%d %v", len(got), sortedPayloads(es))
	nslow := 0
	for _, f := range ls.Faults {
		if store.Fault(f) == store.Slow {
			nslow++
		}
	}
	// With a timeout the load may legitimately be cut short: when the timer lands early, or when
	// the slow fetches can occupy every fetch slot until the timeout (head-of-line blocking).
	exact := !ls.Timeout || (!res.TimerEarly && nslow < ls.Conc)
	if !exact {
		if !subset(got, want) {
			fs = append(fs, sched.Finding{Key: "fetch-unreachable-entry", What: fmt.Sprintf("loaded %v, reachable are only %v", sortedPayloads(es), s.names(want))})
		}
		outcome = "cut-by-timeout"
	} else if len(got) != len(want) || !subset(want, got) {
		kind := "missing"
		if !subset(got, want) {
			kind = "extra"
		}
		fs = append(fs, sched.Finding{Key: "fetch-reachable-set:" + kind, What: fmt.Sprintf("loaded %v, reachable through retrievable, non-excluded entries are %v", sortedPayloads(es), s.names(want))})
	}
	fs = append(fs, requestFindings(s, st, excl)...)
	return outcome, fs
}

// assignments enumerates every function positions -> fault over the given kinds with at most maxFaults faulty positions.
// makeTwoLoads: two loads of the same stored log run side by side in one process (same store, the codec object every
// load of the process shares); one block arrives late. The first load has a configured timeout shorter than the
// block's delay, the second has none: whatever the first one gives up on, every block is retrievable for the second,
// which therefore returns every entry; the first returns a subset. (Anything the two loads share below the API — a
// request in flight, a cache of pending reads — must not carry one load's deadline into the other.)
func makeTwoLoads(shape, loader string, conc, late int, bothTimed bool) sched.Scenario {
	name := fmt.Sprintf("C11/two-loads/%s/%s/conc=%d/late@%d", shape, loader, conc, late)
	if bothTimed {
		name += "/both-timed"
	}
	return sched.Scenario{Name: name, Make: func() *sched.Instance {
		s := getStored(shape)
		st := s.w.St.View(len(s.w.St.Adds))
		st.Faults[s.vals[late].GetHash().KeyString()] = store.Late
		var start []cid.Cid
		for _, h := range s.heads {
			start = append(start, h.GetHash())
		}
		rs := [2]*loadResult{{}, {}}
		load := func(r *loadResult, to time.Duration) func() {
			return func() {
				lo := &ipfslog.LogOptions{ID: "X"}
				switch loader {
				case "multihash":
					r.log, r.err = ipfslog.NewFromMultihash(world.Ctx, st, world.IDs[0], s.mh, lo, &ipfslog.FetchOptions{Concurrency: conc, Timeout: to})
				case "fetchall":
					r.entries = entry.FetchAll(world.Ctx, st, start, &iface.FetchOptions{Concurrency: conc, Timeout: to})
				}
				r.ret = true
			}
		}
		second := time.Duration(0)
		if bothTimed {
			second = time.Hour
		}
		return &sched.Instance{Bodies: []func(){load(rs[0], time.Second), load(rs[1], second)}, Check: func(res *zvsync.Result) (string, []sched.Finding) {
			var fs []sched.Finding
			out := ""
			for i, r := range rs {
				if !r.ret {
					return "no-return", []sched.Finding{{Key: "load-did-not-return", What: fmt.Sprintf("load %d of two concurrent loads did not return", i+1)}}
				}
				if r.err != nil {
					// the manifest itself may be the late block's victim only if it were late; it is not
					fs = append(fs, sched.Finding{Key: "load-error:" + loader, What: fmt.Sprintf("load %d failed: %v", i+1, r.err)})
					continue
				}
				es := r.entries
				if loader != "fetchall" {
					es = r.log.GetEntries().Slice()
				}
				got := map[string]bool{}
				for _, e := range es {
					if e == nil {
						fs = append(fs, sched.Finding{Key: "fetch-nil-entry", What: "a load returned a nil entry"})
						continue
					}
					if got[e.GetHash().String()] {
						fs = append(fs, sched.Finding{Key: "fetch-duplicates", What: fmt.Sprintf("load %d returned %s twice", i+1, string(e.GetPayload()))})
					}
					got[e.GetHash().String()] = true
				}
				all := s.reach(start, map[string]bool{})
				if !subset(got, all) {
					fs = append(fs, sched.Finding{Key: "fetch-unreachable-entries", What: fmt.Sprintf("load %d returned entries that are not reachable from the heads: %v", i+1, s.names(got))})
				}
				ownDeadline := false
				for _, d := range res.TimerDurs {
					ownDeadline = ownDeadline || (bothTimed && d == time.Hour)
				}
				if i == 1 && ownDeadline {
					out += "2:own-deadline-landed "
					continue // its own (far-away) timeout landed: nothing more is promised to this load
				}
				if i == 1 && !subset(all, got) {
					fs = append(fs, sched.Finding{Key: "concurrent-load-lost-retrievable-entries", What: fmt.Sprintf("every block is retrievable (one takes %v) and the second load has %s, yet it returned only %v of %v while another load of the same log with a 1s timeout ran beside it (timers fired: %v)", store.LateFor, map[bool]string{false: "no timeout", true: "a timeout of an hour"}[bothTimed], s.names(got), s.names(all), res.TimerDurs)})
				}
				out += fmt.Sprintf("%d:%d ", i+1, len(got))
			}
			return out, fs
		}}
	}}
}

func assignments(n int, kinds []store.Fault, maxFaults int) []map[int]int {
	var out []map[int]int
	cur := map[int]int{}
	var rec func(i, used int)
	rec = func(i, used int) {
		if i == n {
			m := map[int]int{}
			for k, v := range cur {
				m[k] = v
			}
			out = append(out, m)
			return
		}
		rec(i+1, used)
		if used < maxFaults {
			for _, k := range kinds {
				cur[i] = int(k)
				rec(i+1, used+1)
				delete(cur, i)
			}
		}
	}
	rec(0, 0)
	return out
}

func hasSlow(m map[int]int) bool {
	for _, v := range m {
		if store.Fault(v) == store.Slow {
			return true
		}
	}
	return false
}

func c11Scenarios(tier string) []Spec {
	kinds := []store.Fault{store.Absent, store.Error, store.Garbage, store.NotEntry, store.Slow}
	var specs []Spec
	// (1) all interleavings for every single-fault (quick) / double-fault (thorough) assignment on the small shapes
	shapes := []string{"chain3", "fork", "diamond"}
	concs := []int{1, 2}
	maxF := 1
	loaders := []string{"fetchall", "multihash"}
	if tier == "thorough" {
		shapes = []string{"chain3", "chain4", "fork", "diamond", "heads3"}
		concs = []int{1, 2, 3}
		maxF = 2
		loaders = []string{"fetchall", "multihash", "entryhash", "json", "entry"}
	}
	// (0) two loads side by side, one late block; explored last (10^4..10^6 executions per scenario: what the budget
	// does not reach is reported as not started, and the single-load scenarios are not starved)
	var twoLoads []Spec
	{
		tl := []string{"chain3"}
		lds := []string{"fetchall"}
		if tier == "thorough" {
			tl = []string{"chain3", "fork"}
			lds = []string{"fetchall", "multihash"}
		}
		for _, sh := range tl {
			n := len(getStoredLen(sh))
			for _, ld := range lds {
				for _, c := range concs {
					if c > 2 || c > 1 && (tier != "thorough" || sh != "chain3" || ld != "fetchall") {
						continue // two loads with two workers each: 10^5..10^6 executions per scenario
					}
					for late := 0; late < n; late++ {
						for _, both := range []bool{false, true} {
							if both && tier != "thorough" && late != 1 {
								continue
							}
							twoLoads = append(twoLoads, Spec{HBCache: true, Shards: 2, NoRace: true, Sc: makeTwoLoads(sh, ld, c, late, both)})
						}
					}
				}
			}
		}
	}
	for _, sh := range shapes {
		n := len(getStoredLen(sh))
		for _, as := range assignments(n, kinds, maxF) {
			if len(as) == 0 {
				continue
			}
			for _, ld := range loaders {
				for _, c := range concs {
					ls := loadSpec{Shape: sh, Loader: ld, Conc: c, N: -1, Faults: as, Timeout: hasSlow(as)}
					specs = append(specs, Spec{HBCache: true, RaceBound: 0, Shards: 1, Sc: makeLoad("C11", ls, judgeC11)})
					if hasSlow(as) {
						// the same under a caller context with its own, far later deadline: the configured timeout still bounds the load
						ls.CallerDeadline = true
						specs = append(specs, Spec{HBCache: true, RaceBound: 0, Shards: 1, NoRace: true, Sc: makeLoad("C11", ls, judgeC11)})
					}
				}
			}
		}
		// exclusion through ShouldExclude: every subset of <= 2 positions
		for a := 0; a < n; a++ {
			for b := a; b < n; b++ {
				ex := []int{a}
				if b != a {
					ex = append(ex, b)
				}
				for _, c := range concs {
					ls := loadSpec{Shape: sh, Loader: "fetchall", Conc: c, N: -1, Exclude: ex}
					specs = append(specs, Spec{HBCache: true, RaceBound: 0, Shards: 1, Sc: makeLoad("C11", ls, judgeC11)})
				}
			}
		}
		// a predicate that excludes nothing: what the fetcher does around the caller's code must not matter
		for _, c := range concs {
			if c > 1 {
				ls := loadSpec{Shape: sh, Loader: "fetchall", Conc: c, N: -1, ExcludeNone: true}
				specs = append(specs, Spec{HBCache: true, RaceBound: 0, Shards: 1, Sc: makeLoad("C11", ls, judgeC11)})
			}
		}
		// a timeout with no slow block at all: the timer may land anywhere
		for _, c := range concs {
			ls := loadSpec{Shape: sh, Loader: "multihash", Conc: c, N: -1, Timeout: true}
			specs = append(specs, Spec{HBCache: true, RaceBound: 0, Shards: 1, Sc: makeLoad("C11", ls, judgeC11)})
		}
	}
	// (1b) two missing blocks on a longer chain: skip references are what bridges two adjacent gaps
	{
		sh := "chain8" // long enough that an entry in the middle is linked from exactly one entry two gaps away
		devb := 2
		if tier == "thorough" {
			devb = 3
		}
		n := len(getStoredLen(sh))
		for a := 0; a < n; a++ {
			for b := a + 1; b < n; b++ {
				for _, c := range []int{2} {
					ls := loadSpec{Shape: sh, Loader: "fetchall", Conc: c, N: -1, Faults: map[int]int{a: int(store.Absent), b: int(store.Absent)}}
					specs = append(specs, Spec{DevBound: devb, Shards: 2, NoRace: true, Sc: makeLoad("C11", ls, judgeC11)})
				}
			}
		}
	}
	// (2) every assignment (any number of faults) on the default schedule, all loaders
	var batch []sched.Scenario
	bshapes := []string{"chain3", "chain4", "fork", "diamond"}
	if tier == "thorough" {
		bshapes = append(bshapes, "heads3", "stale")
	}
	for _, sh := range bshapes {
		n := len(getStoredLen(sh))
		mf := n
		if n > 5 {
			mf = 3
		}
		for _, as := range assignments(n, kinds, mf) {
			for _, ld := range []string{"fetchall", "multihash", "entryhash", "json", "entry"} {
				for _, c := range []int{1, 3} {
					batch = append(batch, makeLoad("C11", loadSpec{Shape: sh, Loader: ld, Conc: c, N: -1, Faults: as, Timeout: hasSlow(as)}, judgeC11))
					if hasSlow(as) {
						batch = append(batch, makeLoad("C11", loadSpec{Shape: sh, Loader: ld, Conc: c, N: -1, Faults: as, Timeout: true, CallerDeadline: true}, judgeC11))
					}
				}
			}
		}
	}
	specs = append(specs, Spec{Name: "C11/all-assignments/default-schedule", Batch: batch, Shards: 16, NoRace: true})
	specs = append(specs, twoLoads...)
	return specs
}

func init() {
	register(&Check{ID: "C10", Scenarios: c10Scenarios})
	register(&Check{ID: "C11", Scenarios: c11Scenarios})
}

var _ = seqx.Shapes
var _ = sort.Strings
var _ = strings.Join

// ---------------------------------------------------------------------------
// C12 (scheduler part): stored logs containing undecodable blocks, loaded under the controlled scheduler
// with the race detector attached: a crash of the process through unsynchronised fetcher state is a data
// race first. Single and paired undecodable / not-an-entry blocks on the small shapes, all four loaders.

func c12Scenarios(tier string) []Spec {
	var specs []Spec
	shapes := []string{"fork", "diamond"}
	if tier == "thorough" {
		shapes = []string{"chain3", "chain4", "fork", "diamond", "heads3"}
	}
	for _, sh := range shapes {
		n := len(getStoredLen(sh))
		for a := 0; a < n; a++ {
			for b := a; b < n; b++ {
				for _, kind := range []store.Fault{store.Garbage, store.NotEntry} {
					fs := map[int]int{a: int(kind)}
					if b != a {
						fs[b] = int(store.Garbage)
					}
					for _, ld := range []string{"multihash", "entry"} {
						ls := loadSpec{Shape: sh, Loader: ld, Conc: 2, N: -1, Faults: fs}
						specs = append(specs, Spec{HBCache: true, RaceBound: 1, Shards: 1, Sc: makeLoad("C12", ls, judgeC11)})
					}
				}
			}
		}
	}
	return specs
}

func init() { register(&Check{ID: "C12", Scenarios: c12Scenarios}) }
