package schd

import (
	"context"
	"fmt"
	"sort"
	"strings"
	"time"

	zvatomic "berty.tech/go-ipfs-log/zvatomic"
	"berty.tech/go-ipfs-log/zvlitmus"
	"berty.tech/go-ipfs-log/zvsync"

	"verif/engine/sched"
)

// Litmus programs: the shim is itself checked against the known behaviour of the real
// primitives. A failure is a harness error, never a violation.

type litmus struct {
	name     string
	make     func() *sched.Instance
	outcomes []string // expected set of outcomes (sorted)
	deadlock bool     // a deadlock must be reachable
	race     bool     // a race must be reported (race build only)
}

func inst(bodies []func(), out func() string) *sched.Instance {
	return &sched.Instance{Bodies: bodies, Check: func(*zvsync.Result) (string, []sched.Finding) { return out(), nil }}
}

func litmusPrograms() []litmus {
	return []litmus{
		{name: "mutex-increments", outcomes: []string{"2"}, make: func() *sched.Instance {
			var mu zvsync.Mutex
			x := 0
			f := func() { mu.Lock(); x++; mu.Unlock() }
			return inst([]func(){f, f}, func() string { return fmt.Sprint(x) })
		}},
		{name: "unguarded-increments", outcomes: []string{"2"}, race: true, make: func() *sched.Instance {
			x := 0
			var mu zvsync.Mutex
			f := func() { mu.Lock(); mu.Unlock(); x++ }
			return inst([]func(){f, f}, func() string { return fmt.Sprint(x) })
		}},
		{name: "recursive-rlock-vs-writer", outcomes: []string{"deadlock", "done"}, deadlock: true, make: func() *sched.Instance {
			var mu zvsync.RWMutex
			r := func() { mu.RLock(); mu.RLock(); mu.RUnlock(); mu.RUnlock() }
			w := func() { mu.Lock(); mu.Unlock() }
			return inst([]func(){r, w}, func() string { return "done" })
		}},
		{name: "cond-if-stolen-wakeup", outcomes: []string{"negative", "ok"}, make: func() *sched.Instance {
			var mu zvsync.Mutex
			c := zvsync.NewCond(&mu)
			ready, neg := 0, false
			cons := func() {
				mu.Lock()
				if ready == 0 { // wrong: the predicate is not re-checked after the wake-up
					c.Wait()
				}
				ready--
				if ready < 0 {
					neg = true
				}
				mu.Unlock()
			}
			prod := func() { mu.Lock(); ready++; c.Signal(); mu.Unlock() }
			return inst([]func(){cons, cons, prod, prod}, func() string {
				if neg {
					return "negative"
				}
				return "ok"
			})
		}},
		{name: "cond-for-loop", outcomes: []string{"0"}, make: func() *sched.Instance {
			var mu zvsync.Mutex
			c := zvsync.NewCond(&mu)
			ready := 0
			cons := func() {
				mu.Lock()
				for ready == 0 {
					c.Wait()
				}
				ready--
				if ready < 0 {
					ready = -100
				}
				mu.Unlock()
			}
			prod := func() { mu.Lock(); ready++; c.Signal(); mu.Unlock() }
			return inst([]func(){cons, cons, prod, prod}, func() string { return fmt.Sprint(ready) })
		}},
		{name: "waitgroup-join", outcomes: []string{"3"}, make: func() *sched.Instance {
			x := 0
			var mu zvsync.Mutex
			main := func() {
				var wg zvsync.WaitGroup
				wg.Add(3)
				for i := 0; i < 3; i++ {
					zvsync.Go(func() { defer wg.Done(); mu.Lock(); x++; mu.Unlock() })
				}
				wg.Wait()
				x += 0 // read after the join: must not race
			}
			return inst([]func(){main}, func() string { return fmt.Sprint(x) })
		}},
		{name: "semaphore-as-mutex", outcomes: []string{"2"}, make: func() *sched.Instance {
			sem := zvsync.NewWeighted(1)
			x := 0
			f := func() { sem.Acquire(context.Background(), 1); x++; sem.Release(1) }
			return inst([]func(){f, f}, func() string { return fmt.Sprint(x) })
		}},
		{name: "timeout-unblocks-acquire", outcomes: []string{"acquired", "timeout"}, make: func() *sched.Instance {
			sem := zvsync.NewWeighted(1)
			res := ""
			holder := func() { sem.Acquire(context.Background(), 1); sem.Release(1) }
			waiter := func() {
				ctx, cancel := zvsync.WithTimeout(context.Background(), time.Second)
				defer cancel()
				if err := sem.Acquire(ctx, 1); err != nil {
					res = "timeout"
				} else {
					res = "acquired"
					sem.Release(1)
				}
			}
			return inst([]func(){holder, waiter}, func() string { return res })
		}},
		{name: "nested-timers-shorter-first", outcomes: []string{"inner waited-for=[1s]", "outer waited-for=[1s]"}, make: func() *sched.Instance {
			// an outer deadline of an hour and an inner timeout of a second: the wait always ends through the inner one
			res := ""
			f := func() {
				outer, cancelOuter := zvsync.WithTimeout(context.Background(), time.Hour)
				defer cancelOuter()
				inner, cancel := zvsync.WithTimeout(outer, time.Second)
				defer cancel()
				if inner.Err() != nil {
					res = "inner-before-wait"
					return
				}
				zvsync.WaitCancel(inner)
				if outer.Err() != nil {
					res = "outer"
				} else {
					res = "inner"
				}
			}
			return &sched.Instance{Bodies: []func(){f}, Check: func(r *zvsync.Result) (string, []sched.Finding) {
				// the outer timer may land late (after the wait ended), but nothing ever has to wait for it
				return fmt.Sprintf("%s waited-for=%v", res, r.TimerQuiescent), nil
			}}
		}},
		{name: "outer-timer-cancels-derived-wait", outcomes: []string{"outer"}, make: func() *sched.Instance {
			// only the outer timer is armed; a wait on the outer context through a derived value context ends with it
			res := ""
			f := func() {
				outer, cancelOuter := zvsync.WithTimeout(context.Background(), time.Hour)
				defer cancelOuter()
				if d, ok := outer.Deadline(); !ok || time.Until(d) < 50*time.Minute {
					res = "no-deadline"
					return
				}
				zvsync.WaitCancel(context.WithValue(outer, "k", 1))
				if outer.Err() != nil {
					res = "outer"
				}
			}
			return inst([]func(){f}, func() string { return res })
		}},
		{name: "pool-use-after-put", outcomes: []string{"1 1", "1 2", "2 2"}, race: true, make: func() *sched.Instance {
			// an object read after it was put back may already belong to someone else
			p := zvsync.Pool{New: func() any { return new(int) }}
			var r [2]int
			f := func(i int) func() {
				return func() {
					x := p.Get().(*int)
					*x = i + 1
					p.Put(x)
					r[i] = *x
				}
			}
			return inst([]func(){f(0), f(1)}, func() string { return fmt.Sprint(r[0], " ", r[1]) })
		}},
		{name: "pool-put-get-is-ordered", outcomes: []string{"ok"}, make: func() *sched.Instance {
			p := zvsync.Pool{New: func() any { return new(int) }}
			f := func() {
				x := p.Get().(*int)
				*x++
				p.Put(x)
			}
			return inst([]func(){f, f}, func() string { return "ok" })
		}},
		{name: "channel-of-capacity-1", outcomes: []string{"6"}, make: func() *sched.Instance {
			ch := make(chan int, 1)
			sum := 0
			prod := func() {
				for i := 1; i <= 3; i++ {
					zvsync.Send(ch, i)
				}
				close(ch)
			}
			cons := func() {
				for {
					v, ok := zvsync.Recv(ch)
					if !ok {
						return
					}
					sum += v
				}
			}
			return inst([]func(){prod, cons}, func() string { return fmt.Sprint(sum) })
		}},
		{name: "send-while-holding-the-lock-the-receiver-needs", outcomes: []string{"deadlock"}, deadlock: true, make: func() *sched.Instance {
			// the producer keeps a lock while it sends more than the channel holds; the consumer takes the lock between receives
			var mu zvsync.Mutex
			ch := make(chan int, 1)
			prod := func() {
				mu.Lock()
				for i := 1; i <= 3; i++ {
					zvsync.Send(ch, i)
				}
				mu.Unlock()
				close(ch)
			}
			cons := func() {
				for {
					if _, ok := zvsync.Recv(ch); !ok {
						return
					}
					mu.Lock()
					mu.Unlock()
				}
			}
			return inst([]func(){prod, cons}, func() string { return "done" })
		}},
		{name: "atomic-load-then-store-loses-an-update", outcomes: []string{"1", "2"}, make: func() *sched.Instance {
			var n zvatomic.Int64
			inc := func() { n.Store(n.Load() + 1) }
			return inst([]func(){inc, inc}, func() string { return fmt.Sprint(n.Load()) })
		}},
		{name: "atomic-add-loses-nothing", outcomes: []string{"2"}, make: func() *sched.Instance {
			var n zvatomic.Int64
			inc := func() { n.Add(1) }
			return inst([]func(){inc, inc}, func() string { return fmt.Sprint(n.Load()) })
		}},
		{name: "two-atomics-are-not-one", outcomes: []string{"a/A", "a/B", "b/A", "b/B"}, make: func() *sched.Instance {
			var id, key zvatomic.Value
			set := func(i, k string) func() { return func() { key.Store(k); id.Store(i) } }
			return inst([]func(){set("a", "A"), set("b", "B")}, func() string { return fmt.Sprint(id.Load(), "/", key.Load()) })
		}},
		// plain Go through the rewriter (engine/zvlitmus)
		{name: "rewritten-select:value-or-timeout", outcomes: []string{"done", "got 7"}, make: func() *sched.Instance {
			ch := make(chan int, 1)
			out := ""
			return inst([]func(){func() {
				ctx, cancel := zvsync.WithTimeout(context.Background(), time.Second)
				defer cancel()
				out = zvlitmus.RecvOrDone(ctx, ch)
			}, func() { zvlitmus.Send(ch, 7) }}, func() string { return out })
		}},
		{name: "rewritten-select:nobody-sends-timer-ends-it", outcomes: []string{"done"}, make: func() *sched.Instance {
			ch := make(chan int, 1)
			out := ""
			return inst([]func(){func() {
				ctx, cancel := zvsync.WithTimeout(context.Background(), time.Second)
				defer cancel()
				out = zvlitmus.RecvOrDone(ctx, ch)
			}}, func() string { return out })
		}},
		{name: "rewritten-select:nobody-sends-no-timer-deadlocks", outcomes: []string{"deadlock"}, deadlock: true, make: func() *sched.Instance {
			ch := make(chan int, 1)
			out := "deadlock"
			return inst([]func(){func() { out = zvlitmus.RecvOrDone(context.Background(), ch) }}, func() string { return out })
		}},
		{name: "rewritten-select:loop-with-break", outcomes: []string{"6"}, make: func() *sched.Instance {
			ch, stop := make(chan int, 1), make(chan struct{})
			sum := -1
			return inst([]func(){func() { sum = zvlitmus.Drain(ch, stop) }, func() { zvlitmus.Produce(ch, stop, 1, -1, 2, 3) }}, func() string { return fmt.Sprint(sum) })
		}},
		{name: "rewritten-atomics:cas-loop-loses-nothing", outcomes: []string{"2"}, make: func() *sched.Instance {
			c := &zvlitmus.Counter{}
			return inst([]func(){c.IncCAS, c.IncCAS}, func() string { return fmt.Sprint(c.Value()) })
		}},
		{name: "rewritten-atomics:load-then-store-loses-an-update", outcomes: []string{"1", "2"}, make: func() *sched.Instance {
			c := &zvlitmus.Counter{}
			return inst([]func(){c.IncLoadStore, c.IncLoadStore}, func() string { return fmt.Sprint(c.Value()) })
		}},
		{name: "rewritten-go+waitgroup+mutex", outcomes: []string{"6"}, make: func() *sched.Instance {
			total := 0
			return inst([]func(){func() { total = zvlitmus.FanOut(3) }}, func() string { return fmt.Sprint(total) })
		}},
		{name: "trylock-and-tryacquire", outcomes: []string{"1", "2"}, make: func() *sched.Instance {
			var mu zvsync.Mutex
			sem := zvsync.NewWeighted(1)
			x := 0
			f := func() {
				if mu.TryLock() {
					if sem.TryAcquire(1) {
						x++
						sem.Release(1)
					}
					mu.Unlock()
				}
			}
			return inst([]func(){f, f}, func() string { return fmt.Sprint(x) })
		}},
		{name: "rwmutex-writer-excludes-readers", outcomes: []string{"ok"}, make: func() *sched.Instance {
			var mu zvsync.RWMutex
			x, bad := 0, false
			w := func() { mu.Lock(); x = 1; x = 0; mu.Unlock() }
			r := func() {
				mu.RLock()
				if x != 0 {
					bad = true
				}
				mu.RUnlock()
			}
			return inst([]func(){w, r, r}, func() string {
				if bad {
					return "reader saw a half-done write"
				}
				return "ok"
			})
		}},
	}
}

// RunLitmus explores every litmus program exhaustively (both modes) and returns the list of failures.
func RunLitmus(raceLog string) []string {
	var fails []string
	for _, l := range litmusPrograms() {
		for _, hb := range []bool{false, true} {
			if raceLog != "" && hb {
				continue
			}
			races := 0
			outs := map[string]bool{}
			opt := sched.Options{Bound: 3, HBCache: hb, RaceLog: raceLog, MaxExec: 200000}
			st := sched.Explore(sched.Scenario{Name: l.name, Make: l.make}, opt, func(c sched.Case, f sched.Finding) {
				if strings.HasPrefix(f.Key, "race:") {
					races++
				}
			})
			for o := range st.Outcomes {
				outs[o] = true
			}
			var got []string
			for o := range outs {
				got = append(got, o)
			}
			sort.Strings(got)
			if strings.Join(got, ",") != strings.Join(l.outcomes, ",") {
				fails = append(fails, fmt.Sprintf("litmus %s (%s): outcomes %v, expected %v", l.name, st.Mode, got, l.outcomes))
			}
			if !st.Exhaustive {
				fails = append(fails, fmt.Sprintf("litmus %s (%s): exploration did not complete", l.name, st.Mode))
			}
			if raceLog != "" {
				if l.race && races == 0 {
					fails = append(fails, fmt.Sprintf("litmus %s: the race monitor did not report the unguarded increment", l.name))
				}
				if !l.race && races > 0 {
					fails = append(fails, fmt.Sprintf("litmus %s: the race monitor reported %d races in a correctly synchronised program", l.name, races))
				}
			}
		}
	}
	return fails
}
