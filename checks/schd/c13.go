package schd

import (
	"bytes"
	"fmt"
	"sort"
	"strings"

	ipfslog "berty.tech/go-ipfs-log"
	"berty.tech/go-ipfs-log/enc"
	"berty.tech/go-ipfs-log/entry"
	"berty.tech/go-ipfs-log/iface"
	"berty.tech/go-ipfs-log/io/cbor"
	"berty.tech/go-ipfs-log/zvsync"
	"github.com/ipfs/go-cid"

	"verif/engine/sched"
	"verif/engine/seqx"
	"verif/engine/store"
	"verif/engine/world"
)

// C13 — a log shared between goroutines behaves atomically.
//
// One log A with a two-entry prefix (and a source log B where a merge is involved); 2-3
// threads with 1-2 operations each. On every explored schedule: no deadlock, no panic, no
// race report (race build); every append appears exactly once; appends are serialised into one
// chain and an append that returned before another began is in its causal past; every value a
// single reader call returned is structurally valid; the final state is structurally valid
// and closed under predecessors.

type opRec struct {
	name      string
	call, ret int
	entry     iface.IPFSLogEntry
	err       error
	log       *ipfslog.IPFSLog
	unstored  bool // the returned entry's block was not in the store at the instant the call returned
}

type w13 struct {
	st              *store.Store
	a, b            *ipfslog.IPFSLog
	c               *ipfslog.IPFSLog
	obs             *obs
	identityChanged bool
	recs            [][]opRec   // per thread
	reads           [][]readRec // per thread: what each reader call on a log returned, with its call/return timestamps
	// truncated: the scenario works on a size-bounded log, which by design lacks predecessors of its oldest entries
	truncated bool
}

// readRec is one reader call: the set of entries it returned and when it ran.
type readRec struct {
	name      string
	call, ret int
	log       *ipfslog.IPFSLog
	set       map[string]bool
}

//go:norace
func (w *w13) noteRead(thread int, r readRec) {
	for len(w.reads) <= thread {
		w.reads = append(w.reads, nil)
	}
	w.reads[thread] = append(w.reads[thread], r)
}

func setOfEntries(es []iface.IPFSLogEntry) map[string]bool {
	m := map[string]bool{}
	for _, e := range es {
		if e != nil {
			m[e.GetHash().String()] = true
		}
	}
	return m
}

// readConsistency: a read must contain every append that had returned on that log before the
// read was called, and must not contain an append that was called after the read had returned.
func (w *w13) readConsistency() []sched.Finding {
	var fs []sched.Finding
	for _, rs := range w.reads {
		for _, rd := range rs {
			for _, ops := range w.recs {
				for _, op := range ops {
					if op.entry == nil || op.err != nil || op.log != rd.log {
						continue
					}
					h := op.entry.GetHash().String()
					if op.ret < rd.call && !rd.set[h] {
						fs = append(fs, sched.Finding{Key: "read-misses-completed-append:" + rd.name, What: fmt.Sprintf("%s began after %s had returned but does not contain its entry", rd.name, op.name)})
					}
					if op.call > rd.ret && rd.set[h] {
						fs = append(fs, sched.Finding{Key: "read-sees-future-append:" + rd.name, What: fmt.Sprintf("%s returned before %s was called but contains its entry", rd.name, op.name)})
					}
				}
			}
		}
	}
	return fs
}

func newW13(threads int) *w13 { return newW13Sized(threads, false) }

// newW13Sized: small worlds hold one entry per log (one verification worker per merge).
func newW13Sized(threads int, small bool) *w13 {
	w := &w13{st: NewStore(), obs: newObs(threads), recs: make([][]opRec, threads)}
	w.a = world.NewLog(w.st, 0, nil)
	w.b = world.NewLog(w.st, 1, nil)
	w.c = world.NewLog(w.st, 2, nil)
	mustAppend(w.a, "a1")
	mustAppend(w.b, "b1")
	mustAppend(w.c, "c1")
	if !small {
		mustAppend(w.a, "a2")
		mustAppend(w.b, "b2")
	}
	return w
}

func mustAppend(l *ipfslog.IPFSLog, p string) iface.IPFSLogEntry {
	e, err := l.Append(world.Ctx, []byte(p), &ipfslog.AppendOptions{PointerCount: 4})
	if err != nil {
		panic(err)
	}
	return e
}

//go:norace
func (w *w13) rec(thread int, r opRec) { w.recs[thread] = append(w.recs[thread], r) }

func (w *w13) appendOp(thread int, l *ipfslog.IPFSLog, payload string) {
	r := opRec{name: "append:" + payload, call: zvsync.Now(), log: l}
	r.entry, r.err = l.Append(world.Ctx, []byte(payload), &ipfslog.AppendOptions{PointerCount: 4})
	r.unstored = r.err == nil && r.entry != nil && !w.st.Has(r.entry.GetHash()) // no scheduling point since the return
	r.ret = zvsync.Now()
	w.rec(thread, r)
}

func (w *w13) joinOp(thread int, dst, src *ipfslog.IPFSLog, size int, name string) {
	r := opRec{name: name, call: zvsync.Now()}
	_, r.err = dst.Join(src, size)
	r.ret = zvsync.Now()
	w.rec(thread, r)
}

// universe collects every entry any log of the world holds at the end.
func (w *w13) universe() map[string]iface.IPFSLogEntry {
	u := map[string]iface.IPFSLogEntry{}
	for _, l := range []*ipfslog.IPFSLog{w.a, w.b, w.c} {
		for _, e := range l.GetEntries().Slice() {
			u[e.GetHash().String()] = e
		}
	}
	for _, rs := range w.recs {
		for _, r := range rs {
			if r.entry != nil {
				u[r.entry.GetHash().String()] = r.entry
			}
		}
	}
	return u
}

func inPast(u map[string]iface.IPFSLogEntry, of, x iface.IPFSLogEntry) bool {
	seen := map[string]bool{}
	stack := []iface.IPFSLogEntry{of}
	for len(stack) > 0 {
		e := stack[len(stack)-1]
		stack = stack[:len(stack)-1]
		for _, n := range e.GetNext() {
			k := n.String()
			if k == x.GetHash().String() {
				return true
			}
			if !seen[k] {
				seen[k] = true
				if p, ok := u[k]; ok {
					stack = append(stack, p)
				}
			}
		}
	}
	return false
}

// finalCheck is the common end-of-run oracle on log l.
func (w *w13) finalCheck(l *ipfslog.IPFSLog, name string, bounded bool) (string, []sched.Finding) {
	var fs []sched.Finding
	add := func(key, what string) { fs = append(fs, sched.Finding{Key: key, What: what}) }
	if w.identityChanged {
		// whichever identity change came last, the log is one writer afterwards: what it appends now is signed by
		// the identity whose key is its clock id (an identity change that interleaved with another must not leave
		// the key of one and the clock of the other)
		e, err := l.Append(world.Ctx, []byte("after-identity-change"), &ipfslog.AppendOptions{PointerCount: 4})
		switch {
		case err != nil:
			add("append-after-identity-change-failed", err.Error())
		case !bytes.Equal(e.GetKey(), e.GetClock().GetID()):
			add("identity-and-clock-disagree", fmt.Sprintf("after the identity changes an appended entry is signed with key %x... but stamped with clock id %x...", e.GetKey()[:6], e.GetClock().GetID()[:6]))
		case e.GetIdentity() == nil || !bytes.Equal(e.GetIdentity().PublicKey, e.GetKey()):
			add("identity-and-key-disagree", "after the identity changes an appended entry carries an identity whose public key is not the entry's key")
		}
	}
	for _, o := range w.obs.all() {
		k := o
		if i := strings.Index(o, ":"); i > 0 {
			k = o[:i]
		}
		add("reader:"+k, "a reader call returned an invalid view: "+o)
	}
	var appends []opRec
	for _, rs := range w.recs {
		for _, r := range rs {
			if r.err != nil {
				add("op-error:"+strings.Split(r.name, ":")[0], fmt.Sprintf("%s failed: %v", r.name, r.err))
			}
			if strings.HasPrefix(r.name, "append:") && r.err == nil && r.entry != nil {
				appends = append(appends, r)
			}
		}
	}
	fs = append(fs, w.readConsistency()...)
	if m := structural(l); m != "" && !bounded {
		add("final:"+strings.Split(m, ":")[0], name+" final state: "+m)
	}
	u := w.universe()
	if !bounded {
		if miss := missingPast(l, u); len(miss) > 0 && !w.truncated {
			add("final:not-causally-closed", fmt.Sprintf("%s holds entries whose predecessors %v exist but are missing from it", name, miss))
		}
		// every append on l appears exactly once
		cnt := map[string]int{}
		for _, e := range l.Values().Slice() {
			cnt[string(e.GetPayload())]++
		}
		for _, r := range appends {
			if c := cnt[string(r.entry.GetPayload())]; c != 1 && r.log == l {
				add("append-count", fmt.Sprintf("appended entry %s appears %d times in %s", r.name, c, name))
			}
		}
	}
	// appends to the same log are serialised into one chain, respecting real-time order
	for i := 0; i < len(appends); i++ {
		for j := i + 1; j < len(appends); j++ {
			x, y := appends[i], appends[j]
			if x.log != y.log {
				continue
			}
			xy, yx := inPast(u, y.entry, x.entry), inPast(u, x.entry, y.entry)
			if !xy && !yx {
				add("appends-not-chained", fmt.Sprintf("%s and %s were appended to the same log but neither is in the other's causal past", x.name, y.name))
			}
			if x.ret < y.call && !xy {
				add("append-order", fmt.Sprintf("%s returned before %s began but is not in its causal past", x.name, y.name))
			}
			if y.ret < x.call && !yx {
				add("append-order", fmt.Sprintf("%s returned before %s began but is not in its causal past", y.name, x.name))
			}
		}
	}
	return fmt.Sprintf("values=%v heads=%v", payloads(l.Values().Slice()), sortedPayloads(l.Heads().Slice())), fs
}

// readers -------------------------------------------------------------------

func (w *w13) readValues(slot int, l *ipfslog.IPFSLog) {
	t0 := zvsync.Now()
	vals := l.Values().Slice()
	w.noteRead(slot, readRec{name: "Values", call: t0, ret: zvsync.Now(), log: l, set: setOfEntries(vals)})
	if m := valuesValid(vals, nil); m != "" {
		w.obs.add(slot, m)
	}
	w.noteClosure(slot, "values-not-closed", vals)
}

// noteClosure: every predecessor of a returned entry that was in the world's initial logs must be returned too.
func (w *w13) noteClosure(slot int, key string, vals []iface.IPFSLogEntry) {
	if w.truncated {
		return
	}
	have := map[string]bool{}
	for _, e := range vals {
		have[e.GetHash().String()] = true
	}
	for _, e := range vals {
		for _, n := range e.GetNext() {
			if !have[n.String()] && w.st.Has(n) {
				w.obs.add(slot, fmt.Sprintf("%s: %v lacks a predecessor of %s", key, payloads(vals), string(e.GetPayload())))
				return
			}
		}
	}
}

func (w *w13) readSnapshot(slot int, l *ipfslog.IPFSLog) {
	t0 := zvsync.Now()
	s := l.ToSnapshot()
	w.noteRead(slot, readRec{name: "ToSnapshot", call: t0, ret: zvsync.Now(), log: l, set: setOfEntries(s.Values)})
	if m := valuesValid(s.Values, nil); m != "" {
		w.obs.add(slot, "snapshot-"+m)
		return
	}
	ref := map[string]bool{}
	in := map[string]bool{}
	for _, e := range s.Values {
		in[e.GetHash().String()] = true
		for _, n := range e.GetNext() {
			ref[n.String()] = true
		}
	}
	var want, got []string
	for _, e := range s.Values {
		if !ref[e.GetHash().String()] {
			want = append(want, e.GetHash().String())
		}
	}
	for _, h := range s.Heads {
		got = append(got, h.String())
	}
	sort.Strings(want)
	sort.Strings(got)
	if strings.Join(want, ",") != strings.Join(got, ",") {
		w.obs.add(slot, fmt.Sprintf("snapshot-heads-mismatch: snapshot heads are not the unreferenced entries of the snapshot values %v", payloads(s.Values)))
	}
	w.noteClosure(slot, "snapshot-not-closed", s.Values)
}

func (w *w13) readHeadsEntries(slot int, l *ipfslog.IPFSLog) {
	hs := l.Heads().Slice()
	if len(hs) == 0 {
		w.obs.add(slot, "heads-empty: Heads() of a non-empty log returned nothing")
	}
	for i := range hs {
		for j := range hs {
			if i != j {
				for _, n := range hs[j].GetNext() {
					if n.Equals(hs[i].GetHash()) {
						w.obs.add(slot, fmt.Sprintf("heads-related: head %s is a predecessor of head %s", string(hs[i].GetPayload()), string(hs[j].GetPayload())))
					}
				}
			}
		}
	}
	t0 := zvsync.Now()
	es := l.GetEntries().Slice()
	w.noteRead(slot, readRec{name: "GetEntries", call: t0, ret: zvsync.Now(), log: l, set: setOfEntries(es)})
	seen := map[string]bool{}
	for _, e := range es {
		if e == nil || seen[e.GetHash().String()] {
			w.obs.add(slot, "entries-invalid: GetEntries() returned nil or duplicate entries")
			return
		}
		seen[e.GetHash().String()] = true
	}
	w.noteClosure(slot, "entries-not-closed", es)
}

// readEntries: GetEntries() alone (the fewest scheduling points around the copy it takes)
func (w *w13) readEntries(slot int, l *ipfslog.IPFSLog) {
	t0 := zvsync.Now()
	es := l.GetEntries().Slice()
	w.noteRead(slot, readRec{name: "GetEntries", call: t0, ret: zvsync.Now(), log: l, set: setOfEntries(es)})
	seen := map[string]bool{}
	for _, e := range es {
		if e == nil || seen[e.GetHash().String()] {
			w.obs.add(slot, "entries-invalid: GetEntries() returned nil or duplicate entries")
			return
		}
		seen[e.GetHash().String()] = true
	}
	w.noteClosure(slot, "entries-not-closed", es)
}

func (w *w13) readLenGet(slot int, l *ipfslog.IPFSLog, known iface.IPFSLogEntry) {
	n := l.Len()
	if n < 0 {
		w.obs.add(slot, "len-negative")
	}
	if e, ok := l.Get(known.GetHash()); ok && !e.GetHash().Equals(known.GetHash()) {
		w.obs.add(slot, "get-wrong-entry")
	}
	_ = l.Has(known.GetHash())
}

func (w *w13) readIterator(slot int, l *ipfslog.IPFSLog) {
	ch := make(chan iface.IPFSLogEntry, 64)
	t0 := zvsync.Now()
	defer func() {
		// recorded after draining below
		_ = t0
	}()
	if err := l.Iterator(&ipfslog.IteratorOptions{}, ch); err != nil {
		w.obs.add(slot, "iterator-error: "+err.Error())
		return
	}
	var got []iface.IPFSLogEntry
	closed := false
loop:
	for {
		select {
		case e, ok := <-ch:
			if !ok {
				closed = true
				break loop
			}
			got = append(got, e)
		default:
			break loop
		}
	}
	if !closed {
		w.obs.add(slot, "iterator-open: channel not closed")
	}
	w.noteRead(slot, readRec{name: "Iterator", call: t0, ret: zvsync.Now(), log: l, set: setOfEntries(got)})
	// newest first: reverse must be a valid linearisation
	rev := make([]iface.IPFSLogEntry, len(got))
	for i, e := range got {
		rev[len(got)-1-i] = e
	}
	if m := valuesValid(rev, nil); m != "" {
		w.obs.add(slot, "iterator-"+m)
	}
	w.noteClosure(slot, "iterator-not-closed", got)
}

func (w *w13) publish(slot int, l *ipfslog.IPFSLog) {
	c, err := l.ToMultihash(world.Ctx)
	if err != nil {
		w.obs.add(slot, "publish-error: "+err.Error())
		return
	}
	raw, ok := w.st.Raw(c)
	if !ok || len(raw) == 0 {
		w.obs.add(slot, "publish-missing: manifest not stored")
	}
}

func c13Scenarios(tier string) []Spec {
	b1, b2 := 1, 2
	if tier == "thorough" {
		b1, b2 = 2, 3
	}
	mk := func(name string, threads int, bound int, build func(w *w13) []func(), target func(w *w13) *ipfslog.IPFSLog, bounded bool) Spec {
		rb := 1
		if threads >= 3 && tier != "thorough" {
			rb = 0
		}
		return Spec{Bound: bound, RaceBound: rb, Sc: sched.Scenario{Name: name, Make: func() *sched.Instance {
			w := newW13(threads)
			return &sched.Instance{Bodies: build(w), Check: func(*zvsync.Result) (string, []sched.Finding) {
				return w.finalCheck(target(w), "A", bounded)
			}}
		}}}
	}
	A := func(w *w13) *ipfslog.IPFSLog { return w.a }
	specs := []Spec{
		mk("S1-append|append", 2, b2, func(w *w13) []func() {
			return []func(){func() { w.appendOp(0, w.a, "x1") }, func() { w.appendOp(1, w.a, "y1") }}
		}, A, false),
		mk("S2-append|append|values", 3, b1, func(w *w13) []func() {
			return []func(){func() { w.appendOp(0, w.a, "x1") }, func() { w.appendOp(1, w.a, "y1") }, func() { w.readValues(2, w.a) }}
		}, A, false),
		mk("S3-append|join|heads+entries", 3, b1, func(w *w13) []func() {
			return []func(){func() { w.appendOp(0, w.a, "x1") }, func() { w.joinOp(1, w.a, w.b, -1, "join:A<-B") }, func() { w.readHeadsEntries(2, w.a) }}
		}, A, false),
		mk("S4-append|publish", 2, b2, func(w *w13) []func() {
			return []func(){func() { w.appendOp(0, w.a, "x1") }, func() { w.publish(1, w.a) }}
		}, A, false),
		mk("S5-boundedjoin|len+get", 2, b2, func(w *w13) []func() {
			known := w.a.Heads().Slice()[0]
			return []func(){func() { w.joinOp(0, w.a, w.b, 2, "join2:A<-B") }, func() { w.readLenGet(1, w.a, known) }}
		}, A, true),
		mk("S6-setidentity|append|heads", 3, b1, func(w *w13) []func() {
			return []func(){func() { w.a.SetIdentity(world.IDs[2]) }, func() { w.appendOp(1, w.a, "x1") }, func() { w.readHeadsEntries(2, w.a) }}
		}, A, false),
		mk("S13-setidentity|setidentity", 2, b2, func(w *w13) []func() {
			w.identityChanged = true
			return []func(){func() { w.a.SetIdentity(world.IDs[2]) }, func() { w.a.SetIdentity(world.IDs[3]) }}
		}, A, false),
		mk("S14-setidentity|setidentity|append", 3, b1, func(w *w13) []func() {
			w.identityChanged = true
			return []func(){func() { w.a.SetIdentity(world.IDs[2]) }, func() { w.a.SetIdentity(world.IDs[3]) }, func() { w.appendOp(2, w.a, "x1") }}
		}, A, false),
		mk("S16-two-heads:heads+entries|values", 2, b2, func(w *w13) []func() {
			// two readers at once on a log with two heads: read accessors only read
			if _, err := w.a.Join(w.b, -1); err != nil {
				panic(err)
			}
			return []func(){func() { w.readHeadsEntries(0, w.a) }, func() { w.readValues(1, w.a) }}
		}, A, false),
		mk("S17-two-heads:publish|snapshot|heads", 3, b1, func(w *w13) []func() {
			if _, err := w.a.Join(w.b, -1); err != nil {
				panic(err)
			}
			return []func(){func() { w.publish(0, w.a) }, func() { w.readSnapshot(1, w.a) }, func() { w.readHeadsEntries(2, w.a) }}
		}, A, false),
		mk("S18-iterator(exclusive bound)|append", 2, b2, func(w *w13) []func() {
			// the bounded forms of iteration look entries up before they walk: those look-ups happen under the lock the walk holds
			head := w.a.Heads().Slice()[0].GetHash()
			return []func(){func() {
				ch := make(chan iface.IPFSLogEntry, 64)
				if err := w.a.Iterator(&ipfslog.IteratorOptions{LT: []cid.Cid{head}}, ch); err != nil {
					w.obs.add(0, "iterator-error: "+err.Error())
				}
				ch2 := make(chan iface.IPFSLogEntry, 64)
				if err := w.a.Iterator(&ipfslog.IteratorOptions{LTE: []cid.Cid{head}, GT: w.a.Values().Slice()[0].GetHash()}, ch2); err != nil {
					w.obs.add(0, "iterator-error: "+err.Error())
				}
			}, func() { w.appendOp(1, w.a, "x1") }}
		}, A, false),
		// S19: two logs of one link key merge the same source at the same time (the usual fan-out); both only read the
		// source's entry objects — verification works on copies
		{Bound: 1, RaceBound: 1, Sc: sched.Scenario{Name: "S19-keyed:A.join(S)|B.join(S)", Make: func() *sched.Instance {
			w := &w13{st: NewStore(), obs: newObs(2), recs: make([][]opRec, 2)}
			kio := keyedIO(0x4b)
			w.a = world.NewLog(w.st, 0, &ipfslog.LogOptions{IO: kio})
			w.b = world.NewLog(w.st, 1, &ipfslog.LogOptions{IO: kio})
			w.c = world.NewLog(w.st, 2, &ipfslog.LogOptions{IO: kio})
			mustAppend(w.a, "a1")
			mustAppend(w.b, "b1")
			mustAppend(w.c, "c1")
			mustAppend(w.c, "c2")
			var before []string
			for _, e := range w.c.GetEntries().Slice() {
				before = append(before, seqx.DumpEntry(e))
			}
			src := w.c
			return &sched.Instance{Bodies: []func(){func() { w.joinOp(0, w.a, src, -1, "join:A<-S") }, func() { w.joinOp(1, w.b, src, -1, "join:B<-S") }},
				Check: func(*zvsync.Result) (string, []sched.Finding) {
					out, fs := w.finalCheck(w.a, "A", false)
					for i, e := range src.GetEntries().Slice() {
						if i < len(before) && seqx.DumpEntry(e) != before[i] {
							fs = append(fs, sched.Finding{Key: "merge-mutated-the-source", What: fmt.Sprintf("an entry of the source log changed while two logs merged it:\n before %s\n after  %s", before[i], seqx.DumpEntry(e))})
						}
					}
					if w.b.Len() != 3 {
						fs = append(fs, sched.Finding{Key: "keyed-merge-incomplete", What: fmt.Sprintf("B holds %d entries after merging S (expected 3)", w.b.Len())})
					}
					return out, fs
				}}
		}}},
		mk("S15-join|entries", 2, b2, func(w *w13) []func() {
			return []func(){func() { w.joinOp(0, w.a, w.b, -1, "join:A<-B") }, func() { w.readEntries(1, w.a) }}
		}, A, false),
		mk("S7-iterator|append", 2, b2, func(w *w13) []func() {
			return []func(){func() { w.readIterator(0, w.a) }, func() { w.appendOp(1, w.a, "x1") }}
		}, A, false),
		mk("S8-snapshot|join|append", 3, b1, func(w *w13) []func() {
			return []func(){func() { w.readSnapshot(0, w.a) }, func() { w.joinOp(1, w.a, w.b, -1, "join:A<-B") }, func() { w.appendOp(2, w.a, "x1") }}
		}, A, false),
		mk("S9-join|join", 2, b2, func(w *w13) []func() {
			return []func(){func() { w.joinOp(0, w.a, w.b, -1, "join:A<-B") }, func() { w.joinOp(1, w.a, w.c, -1, "join:A<-C") }}
		}, A, false),
		mk("S11-truncated:iterator-error-paths;append|values", 2, b1, func(w *w13) []func() {
			// a size-bounded merge in the set-up leaves a truncated log whose oldest entries name predecessors it does not hold
			if _, err := w.a.Join(w.b, 2); err != nil {
				panic(err)
			}
			w.truncated = true
			kept := w.a.Values().Slice()
			unknown, _ := cid.NewPrefixV1(cid.DagCBOR, 0x12).Sum([]byte("no such entry"))
			return []func(){func() {
				for _, e := range kept {
					ch := make(chan iface.IPFSLogEntry, 16)
					_ = w.a.Iterator(&ipfslog.IteratorOptions{LT: []cid.Cid{e.GetHash()}}, ch)
					ch2 := make(chan iface.IPFSLogEntry, 16)
					_ = w.a.Iterator(&ipfslog.IteratorOptions{LTE: []cid.Cid{e.GetHash()}, GT: unknown}, ch2)
				}
				for _, o := range []*ipfslog.IteratorOptions{{LT: []cid.Cid{unknown}}, {LTE: []cid.Cid{unknown}}, {LTE: []cid.Cid{kept[0].GetHash(), unknown}}} {
					ch := make(chan iface.IPFSLogEntry, 16)
					if err := w.a.Iterator(o, ch); err == nil {
						w.obs.add(0, "iterator-unknown-bound-accepted: Iterator returned no error for an unknown upper bound")
					}
				}
				if err := w.a.Iterator(nil, make(chan iface.IPFSLogEntry, 1)); err == nil {
					w.obs.add(0, "iterator-nil-options-accepted")
				}
				w.appendOp(0, w.a, "x1")
			}, func() { w.readValues(1, w.a) }}
		}, A, true),
		mk("S12-append|join|tostring+manifest+has", 3, b1, func(w *w13) []func() {
			known := w.a.Heads().Slice()[0]
			return []func(){func() { w.appendOp(0, w.a, "x1") }, func() { w.joinOp(1, w.a, w.b, -1, "join:A<-B") }, func() {
				str := w.a.ToString(nil)
				if n := len(strings.Split(str, "\n")); n < 2 || n > 5 {
					w.obs.add(2, fmt.Sprintf("tostring-lines: ToString has %d lines for a log of 2..5 entries", n))
				}
				jl := w.a.ToJSONLog()
				if jl.ID != "X" || len(jl.Heads) == 0 || len(jl.Heads) > 2 {
					w.obs.add(2, fmt.Sprintf("manifest-heads: ToJSONLog lists %d heads", len(jl.Heads)))
				}
				seen := map[string]bool{}
				for _, h := range jl.Heads {
					if seen[h.String()] {
						w.obs.add(2, "manifest-duplicate-head")
					}
					seen[h.String()] = true
				}
				if !w.a.Has(known.GetHash()) {
					w.obs.add(2, "has-lost-entry: Has() is false for an entry the log held before the run")
				}
				if e, ok := w.a.Get(known.GetHash()); !ok || !e.GetHash().Equals(known.GetHash()) {
					w.obs.add(2, "get-lost-entry: Get() does not return an entry the log held before the run")
				}
				if w.a.RawHeads().Len() == 0 {
					w.obs.add(2, "rawheads-empty")
				}
			}}
		}, A, false),
		mk("S10-append;append|append", 2, b1, func(w *w13) []func() {
			return []func(){func() { w.appendOp(0, w.a, "x1"); w.appendOp(0, w.a, "x2") }, func() { w.appendOp(1, w.a, "y1") }}
		}, A, false),
	}
	return specs
}

func init() {
	register(&Check{ID: "C13", Scenarios: c13Scenarios})
}

// keyedIO is the cbor codec with a link key (32 bytes of b).
func keyedIO(b byte) iface.IO {
	sk, err := enc.NewSecretbox(bytes.Repeat([]byte{b}, 32))
	if err != nil {
		panic(err)
	}
	base, err := cbor.IO(&entry.Entry{}, &entry.LamportClock{})
	if err != nil {
		panic(err)
	}
	return base.ApplyOptions(&cbor.Options{LinkKey: sk})
}
