// Package schd holds the Engine B checks (overlay build, controlled scheduler).
package schd

import (
	"bytes"
	"context"
	"encoding/json"
	"fmt"
	"os"
	"os/exec"
	"path/filepath"
	"sort"
	"strings"
	"time"

	ipfslog "berty.tech/go-ipfs-log"
	"berty.tech/go-ipfs-log/iface"
	"berty.tech/go-ipfs-log/zvsync"

	"verif/engine/run"
	"verif/engine/sched"
	"verif/engine/store"
	"verif/engine/world"
)

// Check is one registered property check of the scheduler binary.
type Check struct {
	ID        string
	Scenarios func(tier string) []Spec
}

// Spec is one scenario with its exploration mode.
type Spec struct {
	Sc      sched.Scenario
	Bound   int
	HBCache bool
	MaxExec int
	Shards  int
	// Batch, when set, replaces Sc: many scenarios explored on their default schedule only, in one job
	Batch []sched.Scenario
	Name  string
	// DevBound > 0: deviation bounding (see sched.Options)
	DevBound int
	// RaceBound is the preemption bound used when the race detector monitors the scenario (it costs ~8x per execution)
	RaceBound int
	// RaceOnly: explored only by the race-monitor binary; NoRace: skipped by it (too slow / not about races)
	NoRace bool
}

var Registry = map[string]*Check{}

func register(c *Check) { Registry[c.ID] = c }

// RaceBuild is set by the race-tagged file.
var RaceBuild = false

func Budget(tier string) *run.Deadline {
	if tier == "thorough" {
		return run.NewDeadline(20 * time.Minute)
	}
	return run.NewDeadline(400 * time.Second)
}

// delay waits on a virtual timer of d under ctx: the wait ends when the timer fires or ctx is done, whichever is first.
func delay(ctx context.Context, d time.Duration) error {
	c, cancel := zvsync.WithTimeout(ctx, d)
	defer cancel()
	zvsync.WaitCancel(c)
	return ctx.Err()
}

// NewStore makes a store double whose Add/Get are scheduling points.
func NewStore() *store.Store {
	st := store.New()
	st.Hooks = &store.Hooks{Access: zvsync.Access, Acquire: zvsync.RaceAcquire, Release: zvsync.RaceRelease, WaitCancel: zvsync.WaitCancel, Delay: delay}
	return st
}

func payloads(es []iface.IPFSLogEntry) []string {
	r := make([]string, len(es))
	for i, e := range es {
		if e == nil {
			r[i] = "<nil>"
			continue
		}
		r[i] = string(e.GetPayload())
	}
	return r
}

func sortedPayloads(es []iface.IPFSLogEntry) []string {
	r := payloads(es)
	sort.Strings(r)
	return r
}

// structural judges one log state read through single accessor calls after the run (no concurrency any more).
func structural(l *ipfslog.IPFSLog) string {
	ents := l.GetEntries().Slice()
	in := map[string]bool{}
	ref := map[string]bool{}
	for _, e := range ents {
		in[e.GetHash().String()] = true
		for _, n := range e.GetNext() {
			ref[n.String()] = true
		}
	}
	var want []string
	for _, e := range ents {
		if !ref[e.GetHash().String()] {
			want = append(want, string(e.GetPayload()))
		}
	}
	sort.Strings(want)
	hs := l.Heads().Slice()
	for _, h := range hs {
		if !in[h.GetHash().String()] {
			return fmt.Sprintf("head-not-entry: head %s is not an entry; entries=%v heads=%v", string(h.GetPayload()), sortedPayloads(ents), payloads(hs))
		}
	}
	if got := sortedPayloads(hs); strings.Join(got, ",") != strings.Join(want, ",") {
		return fmt.Sprintf("heads-mismatch: heads %v, unreferenced entries %v", got, want)
	}
	vals := l.Values().Slice()
	if m := valuesValid(vals, ents); m != "" {
		return m
	}
	// every predecessor named by an entry and known to the store of this world must be present (causal closure)
	return ""
}

// valuesValid: complete w.r.t. ents (if given), duplicate-free, causal.
func valuesValid(vals []iface.IPFSLogEntry, ents []iface.IPFSLogEntry) string {
	pos := map[string]int{}
	for i, e := range vals {
		if e == nil {
			return "values-nil: Values() contains a nil entry"
		}
		if _, dup := pos[e.GetHash().String()]; dup {
			return fmt.Sprintf("values-duplicate: %v", payloads(vals))
		}
		pos[e.GetHash().String()] = i
	}
	if ents != nil && len(ents) != len(vals) {
		return fmt.Sprintf("values-incomplete: Values() %v, entries %v", payloads(vals), sortedPayloads(ents))
	}
	for _, e := range vals {
		for _, n := range e.GetNext() {
			if p, ok := pos[n.String()]; ok && p >= pos[e.GetHash().String()] {
				return fmt.Sprintf("values-causal-order: %v", payloads(vals))
			}
		}
	}
	return ""
}

// closedUnder reports entries of l whose predecessor exists in universe but is missing from l.
func missingPast(l *ipfslog.IPFSLog, universe map[string]iface.IPFSLogEntry) []string {
	have := map[string]bool{}
	for _, e := range l.GetEntries().Slice() {
		have[e.GetHash().String()] = true
	}
	var miss []string
	for _, e := range l.GetEntries().Slice() {
		for _, n := range e.GetNext() {
			if u, ok := universe[n.String()]; ok && !have[n.String()] {
				miss = append(miss, string(u.GetPayload()))
			}
		}
	}
	sort.Strings(miss)
	return miss
}

// obs is a per-scenario observation log written by the thread bodies (each thread appends only to its own slot).
type obs struct {
	slots [][]string
}

func newObs(n int) *obs { return &obs{slots: make([][]string, n)} }

//go:norace
func (o *obs) add(slot int, s string) { o.slots[slot] = append(o.slots[slot], s) }

//go:norace
func (o *obs) all() []string {
	var r []string
	for _, s := range o.slots {
		r = append(r, s...)
	}
	return r
}

// ---------------------------------------------------------------------------
// running a check

type schedCase = sched.Case

// jobResult is what one worker process reports for one (scenario, shard).
type jobResult struct {
	Scenario   string           `json:"scenario"`
	Shard      int              `json:"shard"`
	Stats      sched.Stats      `json:"stats"`
	Violations []*run.Violation `json:"violations"`
	Notes      []string         `json:"notes"`
	// one written-out execution: a schedule (choice index at every scheduling point) and the outcome it produced
	SampleSchedule []int  `json:"sample_schedule"`
	SampleOutcome  string `json:"sample_outcome"`
}

// RunJob explores one shard of one scenario in this process and writes the result file.
func RunJob(id, tier string, specIdx, shard, shards, slot int, raceLog, out string, deadlineUnix int64) {
	world.Init()
	runOneJob(id, tier, Registry[id].Scenarios(tier)[specIdx], shard, shards, slot, raceLog, out, deadlineUnix)
}

// JobItem is one (scenario, shard) of a worker's list.
type JobItem struct {
	Spec   int    `json:"spec"`
	Shard  int    `json:"shard"`
	Shards int    `json:"shards"`
	Out    string `json:"out"`
}

// RunJobs runs a list of small jobs in one process: building the scenario list costs about as much as exploring a
// small scenario, and the thorough tiers have thousands of them.
func RunJobs(id, tier string, listFile string, slot int, raceLog string, deadlineUnix int64) {
	world.Init()
	b, err := os.ReadFile(listFile)
	if err != nil {
		panic(err)
	}
	var items []JobItem
	if err := json.Unmarshal(b, &items); err != nil {
		panic(err)
	}
	specs := Registry[id].Scenarios(tier)
	for _, it := range items {
		runOneJob(id, tier, specs[it.Spec], it.Shard, it.Shards, slot, raceLog, it.Out, deadlineUnix)
	}
}

func runOneJob(id, tier string, sp Spec, shard, shards, slot int, raceLog, out string, deadlineUnix int64) {
	p := run.NewPart(id, "job", tier)
	opt := sched.Options{Bound: sp.Bound, HBCache: sp.HBCache, DevBound: sp.DevBound, MaxExec: sp.MaxExec, Deadline: run.NewDeadlineAt(deadlineUnix), RaceLog: raceLog, Property: id, Shard: shard, Shards: shards, Slot: slot}
	if raceLog != "" {
		// the race monitor costs ~8x per execution: it watches the bounded schedules only
		opt.HBCache = false
		opt.Bound = sp.RaceBound
		opt.DevBound = 0
	}
	name := sp.Sc.Name
	var notes []string
	var st sched.Stats
	if sp.Batch != nil {
		name = sp.Name
		st = sched.Stats{Outcomes: map[string]int{}, Exhaustive: true, Mode: "default-schedule x batch"}
		opt.DefaultOnly = true
		opt.Shard, opt.Shards = 0, 1
		for i, sc := range sp.Batch {
			if i%shards != shard {
				continue
			}
			if opt.Deadline.Expired() {
				st.Exhaustive = false
				break
			}
			scName := sc.Name
			one := sched.Explore(sc, opt, func(cs sched.Case, f sched.Finding) {
				cs.Tier = tier
				p.Violate(name, id+":"+f.Key, fmt.Sprintf("scenario %s, schedule %v: %s", scName, cs.Schedule, f.What), cs)
			})
			st.Executions += one.Executions
			st.Deadlocks += one.Deadlocks
			st.RaceReports += one.RaceReports
			if one.MaxPoints > st.MaxPoints {
				st.MaxPoints = one.MaxPoints
			}
			for o := range one.Outcomes {
				st.Outcomes[classifyOutcome(o)]++
			}
		}
	} else {
		st = sched.Explore(sp.Sc, opt, func(cs sched.Case, f sched.Finding) {
			cs.Tier = tier
			if strings.HasPrefix(f.Key, "harness:") {
				notes = append(notes, name+": "+f.What)
				return
			}
			p.Violate(name, id+":"+f.Key, fmt.Sprintf("scenario %s, schedule %v: %s", name, cs.Schedule, f.What), cs)
		})
	}
	var sampleS []int
	sampleO := ""
	for o, sc := range st.First {
		if sampleO == "" || o > sampleO {
			sampleO, sampleS = o, sc
		}
	}
	st.First = nil
	res := jobResult{Scenario: name, Shard: shard, Stats: st, Violations: p.Violations, Notes: notes, SampleSchedule: sampleS, SampleOutcome: sampleO}
	b, _ := json.Marshal(res)
	if err := os.WriteFile(out, b, 0o644); err != nil {
		fmt.Fprintln(os.Stderr, err)
		os.Exit(3)
	}
}

// RunCheck is the parent: it distributes (scenario, shard) jobs over worker processes and merges their results.
func RunCheck(p *run.Part, id, tier string, raceLog string, journalDir string) {
	specs := Registry[id].Scenarios(tier)
	self, _ := os.Executable()
	type job struct {
		spec, shard, shards int
		out                 string
	}
	tmp, err := os.MkdirTemp(filepath.Dir(journalDirOr(journalDir)), "jobs-")
	if err != nil {
		panic(err)
	}
	defer os.RemoveAll(tmp)
	var jobs []job
	only := os.Getenv("VERIF_ONLY") // debugging aid: restrict to scenarios whose name contains this
	for i, sp := range specs {
		if raceLog != "" && sp.NoRace {
			continue
		}
		if only != "" && !strings.Contains(sp.Sc.Name+sp.Name, only) {
			continue
		}
		n := sp.Shards
		if n <= 0 {
			n = 8
			if raceLog != "" {
				n = 16
			}
			if sp.HBCache && raceLog == "" {
				n = 4
			}
		}
		for s := 0; s < n; s++ {
			jobs = append(jobs, job{i, s, n, filepath.Join(tmp, fmt.Sprintf("job-%d-%d.json", i, s))})
		}
	}
	deadlineAt := Budget(tier)
	deadline := deadlineAt.Unix()
	// unsharded scenarios are handed to workers in lists (a worker builds the scenario list once); sharded ones
	// (the large ones) get a process per shard
	var groups [][]job
	small := 0
	for _, jb := range jobs {
		if jb.shards == 1 {
			small++
		}
	}
	per := (small + 63) / 64
	if per > 32 {
		per = 32
	}
	if per < 1 {
		per = 1
	}
	var cur []job
	for _, jb := range jobs {
		if jb.shards != 1 {
			groups = append(groups, []job{jb})
			continue
		}
		cur = append(cur, jb)
		if len(cur) == per {
			groups = append(groups, cur)
			cur = nil
		}
	}
	if len(cur) > 0 {
		groups = append(groups, cur)
	}
	sem := make(chan bool, 16)
	done := make(chan int, len(groups))
	died := make([]string, len(groups))
	notStarted := 0
	for k, g := range groups {
		sem <- true
		if deadlineAt.Expired() {
			// the budget of this part is used up: the remaining scenarios are reported as not explored
			<-sem
			done <- k
			notStarted += len(g)
			for _, jb := range g {
				st := sched.Stats{Outcomes: map[string]int{}, Exhaustive: false, Mode: "not started (deadline)"}
				b, _ := json.Marshal(jobResult{Scenario: specs[jb.spec].Sc.Name + specs[jb.spec].Name, Shard: jb.shard, Stats: st})
				os.WriteFile(jb.out, b, 0o644)
			}
			continue
		}
		go func(k int, g []job) {
			defer func() { <-sem; done <- k }()
			var items []JobItem
			for _, jb := range g {
				items = append(items, JobItem{jb.spec, jb.shard, jb.shards, jb.out})
			}
			lf := filepath.Join(tmp, fmt.Sprintf("list-%d.json", k))
			lb, _ := json.Marshal(items)
			if err := os.WriteFile(lf, lb, 0o644); err != nil {
				panic(err)
			}
			cmd := exec.Command(self, "jobs", id, tier, lf, journalDir, fmt.Sprint(k), fmt.Sprint(deadline))
			cmd.Env = os.Environ()
			if raceLog != "" {
				cmd.Env = append(cmd.Env, fmt.Sprintf("GORACE=halt_on_error=0 exitcode=0 log_path=%s-job%d", raceLog, k))
			}
			// a worker stops by itself shortly after the deadline; one that is still there four minutes later is
			// blocked in an operation the scheduler does not intercept (code under test that waits on a primitive
			// the instrumentation does not model): it is killed and reported as died, never waited for
			stalled := false
			var obuf bytes.Buffer
			cmd.Stdout, cmd.Stderr = &obuf, &obuf
			err := cmd.Start()
			if err == nil {
				grace := time.Until(time.Unix(deadline, 0)) + 4*time.Minute
				tm := time.AfterFunc(grace, func() { stalled = true; cmd.Process.Kill() })
				err = cmd.Wait()
				tm.Stop()
			}
			outb := obuf.Bytes()
			if stalled {
				err = fmt.Errorf("stalled: still running four minutes after its deadline (blocked outside the scheduler's view), killed; %v", err)
			}
			if err != nil {
				died[k] = fmt.Sprintf("worker %d (%s%s shard %d ... %d jobs): %v\n%s", k, specs[g[0].spec].Sc.Name, specs[g[0].spec].Name, g[0].shard, len(g), err, tail(string(outb), 6000))
			}
		}(k, g)
	}
	for range groups {
		<-done
	}
	if notStarted > 0 {
		p.Inexhaustive(fmt.Sprintf("%d scenario shards were not started: the budget of this part was used up", notStarted))
	}
	for k := range groups {
		if died[k] != "" {
			fmt.Fprintln(os.Stderr, died[k])
			if strings.Contains(died[k], "exit status 3") {
				os.Exit(3)
			}
			os.Exit(2) // a worker died: the supervisor attributes it through the journal
		}
	}
	// merge
	type agg struct {
		st    sched.Stats
		parts int
	}
	aggs := map[string]*agg{}
	var order []string
	for _, jb := range jobs {
		b, err := os.ReadFile(jb.out)
		if err != nil {
			fmt.Fprintln(os.Stderr, "schedcheck: missing job result", jb.out)
			os.Exit(3)
		}
		var r jobResult
		if err := json.Unmarshal(b, &r); err != nil {
			panic(err)
		}
		if r.Shard == 0 && len(r.SampleSchedule) > 0 {
			p.Sample(6, map[string]interface{}{"scenario": r.Scenario, "schedule_choice_index_at_each_scheduling_point": r.SampleSchedule, "outcome": r.SampleOutcome})
		}
		a := aggs[r.Scenario]
		if a == nil {
			a = &agg{st: sched.Stats{Outcomes: map[string]int{}, Exhaustive: true, Mode: r.Stats.Mode}}
			aggs[r.Scenario] = a
			order = append(order, r.Scenario)
		}
		a.parts++
		a.st.Executions += r.Stats.Executions
		a.st.States += r.Stats.States
		a.st.Pruned += r.Stats.Pruned
		a.st.Deadlocks += r.Stats.Deadlocks
		a.st.RaceReports += r.Stats.RaceReports
		if r.Stats.MaxPoints > a.st.MaxPoints {
			a.st.MaxPoints = r.Stats.MaxPoints
		}
		a.st.Exhaustive = a.st.Exhaustive && r.Stats.Exhaustive
		for o, n := range r.Stats.Outcomes {
			a.st.Outcomes[o] += n
		}
		for _, n := range r.Notes {
			p.Inexhaustive(n)
		}
		for _, v := range r.Violations {
			var cs sched.Case
			json.Unmarshal(v.Case, &cs)
			p.Violate(v.Check, v.Key, v.What, cs)
		}
	}
	var rows []map[string]interface{}
	for _, name := range order {
		st := aggs[name].st
		if !st.Exhaustive {
			p.Inexhaustive(fmt.Sprintf("%s: stopped after %d executions (%s)", name, st.Executions, st.Mode))
		}
		rows = append(rows, map[string]interface{}{"scenario": name, "mode": st.Mode, "executions": st.Executions, "hb_states": st.States, "pruned": st.Pruned,
			"max_points": st.MaxPoints, "distinct_outcomes": len(st.Outcomes), "outcomes": st.Outcomes, "deadlocks": st.Deadlocks, "race_reports": st.RaceReports,
			"completed": st.Exhaustive, "shards": aggs[name].parts})
		states := st.States
		if states == 0 {
			states = st.Executions
		}
		p.Add(int64(states), int64(st.Executions), int64(st.Executions), int64(st.Executions))
		for o := range st.Outcomes {
			p.Nontriv(name + "/" + o)
		}
		p.Sample(12, map[string]interface{}{"scenario": name, "mode": st.Mode, "executions": st.Executions, "outcomes": st.Outcomes})
		if os.Getenv("VERIF_VERBOSE") != "" {
			fmt.Fprintf(os.Stderr, "[%s] %s: %s executions=%d states=%d pruned=%d maxpoints=%d outcomes=%d deadlocks=%d races=%d complete=%v\n", id, name, st.Mode, st.Executions, st.States, st.Pruned, st.MaxPoints, len(st.Outcomes), st.Deadlocks, st.RaceReports, st.Exhaustive)
		}
	}
	p.SetExtra("scenarios", rows)
}

// classifyOutcome shortens batch outcomes to their size class so that evidence stays small.
func classifyOutcome(o string) string {
	if i := strings.Index(o, " "); i > 0 {
		return o[:i]
	}
	return o
}

func journalDirOr(d string) string {
	if d == "" {
		return filepath.Join(os.TempDir(), "x")
	}
	return d
}

func tail(s string, n int) string {
	if len(s) > n {
		return s[len(s)-n:]
	}
	return s
}

// ReplayCase re-executes one schedule of one scenario.
func ReplayCase(p *run.Part, id string, raw []byte, raceLog string) string {
	var cs sched.Case
	if err := json.Unmarshal(raw, &cs); err != nil {
		panic(err)
	}
	world.Init()
	tiers := []string{"quick", "thorough"}
	if cs.Tier != "" {
		tiers = []string{cs.Tier}
	}
	for _, tier := range tiers {
		for _, sp := range Registry[id].Scenarios(tier) {
			for _, b := range sp.Batch {
				if b.Name == cs.Scenario {
					sp.Sc = b
				}
			}
			if sp.Sc.Name == cs.Scenario {
				res, outcome, fs := sched.Replay(sp.Sc, cs.Schedule, raceLog)
				for _, f := range fs {
					p.Violate(cs.Scenario, id+":"+f.Key, f.What, cs)
				}
				return fmt.Sprintf("outcome: %s\ntrace: %s", outcome, strings.Join(res.Trace, " "))
			}
		}
	}
	panic("replay: unknown scenario " + cs.Scenario)
}
