package schd

import (
	"fmt"
	"reflect"
	"sort"
	"strings"
	"unsafe"

	ipfslog "berty.tech/go-ipfs-log"
	"berty.tech/go-ipfs-log/zvsync"

	"verif/engine/sched"
)

// C14 — merging from a live log sees a consistent snapshot and cannot deadlock.
//
// Logs A, B, C with one or two entries each. A merge from a source that is concurrently
// appended to, merged into, or merging back: every schedule terminates; the destination's
// heads are entries of it; it is closed under predecessors (the whole history of every head
// that the source held is included); and its entry set equals (initial destination) union
// (one of the states the source really had during the run).

func setOf(l *ipfslog.IPFSLog) string {
	return strings.Join(sortedPayloads(l.GetEntries().Slice()), ",")
}

func union(a, b string) string {
	m := map[string]bool{}
	for _, x := range strings.Split(a, ",") {
		if x != "" {
			m[x] = true
		}
	}
	for _, x := range strings.Split(b, ",") {
		if x != "" {
			m[x] = true
		}
	}
	var r []string
	for k := range m {
		r = append(r, k)
	}
	sort.Strings(r)
	return strings.Join(r, ",")
}

// mergeOracle checks dst's final set against dst0 ∪ s for some s in srcStates.
func mergeOracle(name string, dst *ipfslog.IPFSLog, dst0 string, extra []string, srcStates []string) []sched.Finding {
	got := setOf(dst)
	for _, s := range srcStates {
		want := union(dst0, s)
		for _, x := range extra {
			want = union(want, x)
		}
		if got == want {
			return nil
		}
	}
	return []sched.Finding{{Key: "merge-not-a-snapshot", What: fmt.Sprintf("%s ends with {%s}; the source was only ever in the states %v (destination started as {%s})", name, got, srcStates, dst0)}}
}

func c14Scenarios(tier string) []Spec {
	b1, b2 := 1, 1
	_, _ = b1, b2
	var specs []Spec
	focusLogs := false
	add := func(name string, threads, bound int, build func(w *w13) ([]func(), func() []sched.Finding)) {
		rb := 1
		if threads >= 3 && tier != "thorough" {
			rb = 0
		}
		hb := threads < 3 || tier == "thorough"
		specs = append(specs, Spec{Bound: bound, HBCache: hb, RaceBound: rb, Sc: sched.Scenario{Name: name, Make: func() *sched.Instance {
			w := newW13Sized(threads, tier != "thorough")
			bodies, extra := build(w)
			var fo []unsafe.Pointer
			if focusLogs {
				fo = logLocks(w.a, w.b, w.c)
			}
			return &sched.Instance{Bodies: bodies, Focus: fo, Check: func(*zvsync.Result) (string, []sched.Finding) {
				out, fs := w.finalCheck(w.a, "A", false)
				for _, l := range []struct {
					n string
					l *ipfslog.IPFSLog
				}{{"B", w.b}, {"C", w.c}} {
					if m := structural(l.l); m != "" {
						fs = append(fs, sched.Finding{Key: "final:" + strings.Split(m, ":")[0], What: l.n + " final state: " + m})
					}
					if w.truncated {
						continue // a size-bounded merge into this log cut its history on purpose
					}
					if miss := missingPast(l.l, w.universe()); len(miss) > 0 {
						fs = append(fs, sched.Finding{Key: "final:not-causally-closed", What: fmt.Sprintf("%s lacks predecessors %v of entries it holds", l.n, miss)})
					}
				}
				fs = append(fs, extra()...)
				return out + " | B=" + setOf(w.b) + " | C=" + setOf(w.c), fs
			}}
		}}})
	}
	add("J1-A.join(B)|B.append", 2, b2, func(w *w13) ([]func(), func() []sched.Finding) {
		a0, b0 := setOf(w.a), setOf(w.b)
		return []func(){func() { w.joinOp(0, w.a, w.b, -1, "join:A<-B") }, func() { w.appendOp(1, w.b, "q1") }},
			func() []sched.Finding { return mergeOracle("A", w.a, a0, nil, []string{b0, union(b0, "q1")}) }
	})
	add("J2-A.join(B)|B.append;B.append", 2, b1, func(w *w13) ([]func(), func() []sched.Finding) {
		a0, b0 := setOf(w.a), setOf(w.b)
		return []func(){func() { w.joinOp(0, w.a, w.b, -1, "join:A<-B") }, func() { w.appendOp(1, w.b, "q1"); w.appendOp(1, w.b, "q2") }},
			func() []sched.Finding {
				return mergeOracle("A", w.a, a0, nil, []string{b0, union(b0, "q1"), union(b0, "q1,q2")})
			}
	})
	add("J3-A.join(B)|B.join(C)", 2, b2, func(w *w13) ([]func(), func() []sched.Finding) {
		a0, b0, c0 := setOf(w.a), setOf(w.b), setOf(w.c)
		return []func(){func() { w.joinOp(0, w.a, w.b, -1, "join:A<-B") }, func() { w.joinOp(1, w.b, w.c, -1, "join:B<-C") }},
			func() []sched.Finding { return mergeOracle("A", w.a, a0, nil, []string{b0, union(b0, c0)}) }
	})
	// a size-bounded merge INTO the source while it is being merged from: the source's entry set shrinks
	for _, v := range []struct {
		name     string
		src, oth func(w *w13) *ipfslog.IPFSLog
	}{
		{"J8-A.join(B)|B.join(C,1)", func(w *w13) *ipfslog.IPFSLog { return w.b }, func(w *w13) *ipfslog.IPFSLog { return w.c }},
		{"J9-A.join(C)|C.join(B,1)", func(w *w13) *ipfslog.IPFSLog { return w.c }, func(w *w13) *ipfslog.IPFSLog { return w.b }},
	} {
		v := v
		add(v.name, 2, b2, func(w *w13) ([]func(), func() []sched.Finding) {
			src, oth := v.src(w), v.oth(w)
			w.truncated = true
			a0, s0 := setOf(w.a), setOf(src)
			return []func(){func() { w.joinOp(0, w.a, src, -1, "join:A<-src") }, func() { w.joinOp(1, src, oth, 1, "join1:src<-other") }},
				func() []sched.Finding {
					// the source was in exactly two states: before the bounded merge and after it
					return mergeOracle("A", w.a, a0, nil, []string{s0, setOf(src)})
				}
		})
	}
	add("J4-A.join(B)|B.join(A)", 2, b2, func(w *w13) ([]func(), func() []sched.Finding) {
		a0, b0 := setOf(w.a), setOf(w.b)
		return []func(){func() { w.joinOp(0, w.a, w.b, -1, "join:A<-B") }, func() { w.joinOp(1, w.b, w.a, -1, "join:B<-A") }},
			func() []sched.Finding {
				fs := mergeOracle("A", w.a, a0, nil, []string{b0, union(b0, a0)})
				return append(fs, mergeOracle("B", w.b, b0, nil, []string{a0, union(a0, b0)})...)
			}
	})
	add("J5-A.join(B)|B.join(C)|C.join(A)", 3, 0, func(w *w13) ([]func(), func() []sched.Finding) {
		a0, b0, c0 := setOf(w.a), setOf(w.b), setOf(w.c)
		all := union(union(a0, b0), c0)
		return []func(){func() { w.joinOp(0, w.a, w.b, -1, "join:A<-B") }, func() { w.joinOp(1, w.b, w.c, -1, "join:B<-C") }, func() { w.joinOp(2, w.c, w.a, -1, "join:C<-A") }},
			func() []sched.Finding {
				fs := mergeOracle("A", w.a, a0, nil, []string{b0, union(b0, c0), all})
				fs = append(fs, mergeOracle("B", w.b, b0, nil, []string{c0, union(c0, a0), all})...)
				return append(fs, mergeOracle("C", w.c, c0, nil, []string{a0, union(a0, b0), all})...)
			}
	})
	add("J6-A.join(B)|A.append|B.append", 3, b1, func(w *w13) ([]func(), func() []sched.Finding) {
		a0, b0 := setOf(w.a), setOf(w.b)
		return []func(){func() { w.joinOp(0, w.a, w.b, -1, "join:A<-B") }, func() { w.appendOp(1, w.a, "x1") }, func() { w.appendOp(2, w.b, "q1") }},
			func() []sched.Finding {
				return mergeOracle("A", w.a, a0, []string{"x1"}, []string{b0, union(b0, "q1")})
			}
	})
	// four threads: both logs merge each other while each is also being appended to. A deadlock here needs two
	// preemptions (each merge inside its window when the appends queue up behind it), so this one is bounded at 2.
	focusLogs = true
	j7bound := 1
	if tier == "thorough" {
		j7bound = 2
	}
	add("J7-A.join(B)|B.join(A)|A.append|B.append", 4, j7bound, func(w *w13) ([]func(), func() []sched.Finding) {
		a0, b0 := setOf(w.a), setOf(w.b)
		return []func(){func() { w.joinOp(0, w.a, w.b, -1, "join:A<-B") }, func() { w.joinOp(1, w.b, w.a, -1, "join:B<-A") },
				func() { w.appendOp(2, w.a, "x1") }, func() { w.appendOp(3, w.b, "q1") }},
			func() []sched.Finding {
				fs := mergeOracle("A", w.a, a0, []string{"x1"}, []string{b0, union(b0, "q1"), union(b0, a0), union(union(b0, a0), "q1"), union(union(b0, a0), "x1"), union(union(union(b0, a0), "x1"), "q1")})
				return append(fs, mergeOracle("B", w.b, b0, []string{"q1"}, []string{a0, union(a0, "x1"), union(a0, b0), union(union(a0, b0), "x1"), union(union(a0, b0), "q1"), union(union(union(a0, b0), "x1"), "q1")})...)
			}
	})
	specs[len(specs)-1].HBCache = false
	specs[len(specs)-1].Shards = 16
	specs[len(specs)-1].RaceBound = 0
	return specs
}

func init() {
	register(&Check{ID: "C14", Scenarios: c14Scenarios})
}

// logLocks returns the addresses of the logs' own reader/writer locks (the unexported field "lock"):
// the objects at which a scenario with a focus places its preemptions.
func logLocks(ls ...*ipfslog.IPFSLog) []unsafe.Pointer {
	var out []unsafe.Pointer
	for _, l := range ls {
		f := reflect.ValueOf(l).Elem().FieldByName("lock")
		if f.IsValid() && f.CanAddr() {
			out = append(out, unsafe.Pointer(f.UnsafeAddr()))
		}
	}
	return out
}
