package schd

import (
	"berty.tech/go-ipfs-log/accesscontroller"
	idp "berty.tech/go-ipfs-log/identityprovider"
	"fmt"
	"sort"
	"strings"

	ipfslog "berty.tech/go-ipfs-log"
	"berty.tech/go-ipfs-log/entry"
	"berty.tech/go-ipfs-log/iface"
	"berty.tech/go-ipfs-log/zvsync"
	"github.com/ipfs/go-cid"
	cbornode "github.com/ipfs/go-ipld-cbor"

	"verif/engine/sched"
	"verif/engine/store"
	"verif/engine/world"
)

// ---------------------------------------------------------------------------
// C06 (concurrent part): the verification workers of one merge.
//
// One Join of three new entries of which the entries at the given positions are bad
// (signature removed / payload altered); all interleavings of the verification workers.
// Oracle: error iff a bad entry is among the candidates, destination unchanged on error,
// union on success; no race on the workers' shared error state (race build).

func c06Scenarios(tier string) []Spec {
	var specs []Spec
	sets := [][]int{{}, {0}, {2}, {0, 1}, {1, 2}, {0, 1, 2}}
	for _, bad := range sets {
		bad := bad
		for _, kind := range []string{"sig-removed", "payload-altered"} {
			kind := kind
			if len(bad) == 0 && kind != "sig-removed" {
				continue
			}
			for _, then := range []bool{false, true} {
				then := then
				if then && (len(bad) == 0 || len(bad) == 3 || kind != "sig-removed") {
					continue
				}
				name := fmt.Sprintf("C06/join3/bad%v/%s", bad, kind)
				if then {
					// the caller goes on writing right after the refusal: whatever the merge started must be over by then
					name += ";append"
				}
				specs = append(specs, Spec{HBCache: true, RaceBound: 2, Shards: 1, Sc: sched.Scenario{Name: name, Make: func() *sched.Instance {
					st := NewStore()
					var aOpts *ipfslog.LogOptions
					if then {
						// a controller that looks at what the log holds before it answers (a quota, a causal rule): it
						// reads the log through the context it is given, under whatever protection the caller provides
						aOpts = &ipfslog.LogOptions{ID: "X", AccessController: inspectingAC{}}
					}
					a := world.NewLog(st, 0, aOpts)
					b := world.NewLog(st, 1, nil)
					mustAppend(a, "a1")
					mustAppend(b, "b1")
					mustAppend(b, "b2")
					mustAppend(b, "b3")
					es := entry.NewOrderedMap()
					var heads []iface.IPFSLogEntry
					isBad := map[int]bool{}
					for _, i := range bad {
						isBad[i] = true
					}
					vals := b.Values().Slice()
					for i, e := range vals {
						c := e.Copy()
						c.SetHash(e.GetHash())
						if isBad[i] {
							if kind == "sig-removed" {
								c.SetSig(nil)
							} else {
								c.SetPayload(append(append([]byte{}, e.GetPayload()...), '!'))
							}
						}
						es.Set(c.GetHash().String(), c)
						if i == len(vals)-1 {
							heads = []iface.IPFSLogEntry{c}
						}
					}
					src, err := ipfslog.NewLog(st, world.IDs[1], &ipfslog.LogOptions{ID: "X", Entries: es, Heads: heads})
					if err != nil {
						panic(err)
					}
					before := setOf(a)
					beforeHeads := strings.Join(sortedPayloads(a.Heads().Slice()), ",")
					var jerr, aerr error
					returned := false
					body := func() {
						_, jerr = a.Join(src, -1)
						if then {
							_, aerr = a.Append(world.Ctx, []byte("x1"), nil)
							before = union(before, "x1")
							beforeHeads = "x1"
						}
						returned = true
					}
					return &sched.Instance{Bodies: []func(){body}, Check: func(*zvsync.Result) (string, []sched.Finding) {
						var fs []sched.Finding
						if !returned {
							return "no-return", []sched.Finding{{Key: "join-did-not-return", What: "Join did not return"}}
						}
						after := setOf(a)
						if len(bad) > 0 {
							if jerr == nil {
								fs = append(fs, sched.Finding{Key: "bad-entry-merged:" + kind, What: fmt.Sprintf("a merge with bad entries at %v succeeded; destination now {%s}", bad, after)})
							} else if after != before || strings.Join(sortedPayloads(a.Heads().Slice()), ",") != beforeHeads {
								fs = append(fs, sched.Finding{Key: "failed-merge-changed-log", What: fmt.Sprintf("the merge failed (%v) but the destination went from {%s} to {%s}", jerr, before, after)})
							}
						} else {
							if jerr != nil {
								fs = append(fs, sched.Finding{Key: "valid-merge-rejected", What: "a merge of valid entries failed: " + jerr.Error()})
							} else if after != union(before, "b1,b2,b3") {
								fs = append(fs, sched.Finding{Key: "merge-not-union", What: "destination is {" + after + "}"})
							}
						}
						if aerr != nil {
							fs = append(fs, sched.Finding{Key: "append-after-refused-merge-failed", What: aerr.Error()})
						}
						if m := structural(a); m != "" {
							fs = append(fs, sched.Finding{Key: "final:" + strings.Split(m, ":")[0], What: m})
						}
						return fmt.Sprintf("err=%v set={%s}", jerr != nil, after), fs
					}}
				}}})
			}
		}
	}
	return specs
}

// ---------------------------------------------------------------------------
// C17 (concurrent part): appends and publications racing on one store.
//
// Append | ToMultihash | Append on one log (and Append on a second log sharing the store), every
// block write a scheduling point. In every schedule: at the instant of every block write the
// links of the written block are already stored; every returned manifest and entry hash loads
// (afterwards, sequentially) to a causally closed log whose heads are the returned ones.

func blockLinksOf(st *store.Store, c cid.Cid) []cid.Cid {
	raw, ok := st.Raw(c)
	if !ok {
		return nil
	}
	nd, err := store.Decode(c, raw)
	if err != nil {
		return nil
	}
	var out []cid.Cid
	if cn, ok := nd.(*cbornode.Node); ok {
		for _, l := range cn.Links() {
			out = append(out, l.Cid)
		}
	}
	return out
}

func c17Scenarios(tier string) []Spec {
	b := 1
	if tier == "thorough" {
		b = 2
	}
	mk := func(name string, threads int, build func(w *w13, pubs *[]cid.Cid) []func()) Spec {
		rb := 1
		if threads >= 3 {
			rb = 0
		}
		return Spec{Bound: b, RaceBound: rb, Sc: sched.Scenario{Name: name, Make: func() *sched.Instance {
			w := newW13Sized(threads, true)
			var open []string
			w.st.OnAdd = func(s *store.Store, c cid.Cid) {
				for _, l := range blockLinksOf(s, c) {
					if !s.Has(l) {
						open = append(open, fmt.Sprintf("block %s was written before its link %s", c, l))
					}
				}
			}
			var pubs []cid.Cid
			bodies := build(w, &pubs)
			return &sched.Instance{Bodies: bodies, Check: func(*zvsync.Result) (string, []sched.Finding) {
				out, fs := w.finalCheck(w.a, "A", false)
				for _, o := range open {
					fs = append(fs, sched.Finding{Key: "store-not-closed", What: o})
				}
				w.st.OnAdd = nil
				view := w.st.View(len(w.st.Adds))
				var loaded []string
				for _, mh := range pubs {
					l, err := ipfslog.NewFromMultihash(world.Ctx, view, world.IDs[0], mh, &ipfslog.LogOptions{}, &ipfslog.FetchOptions{})
					if err != nil {
						fs = append(fs, sched.Finding{Key: "manifest-not-loadable", What: "a returned manifest does not load: " + err.Error()})
						continue
					}
					if m := structural(l); m != "" {
						fs = append(fs, sched.Finding{Key: "manifest-state:" + strings.Split(m, ":")[0], What: "the log loaded from a returned manifest: " + m})
					}
					if miss := missingPast(l, w.universe()); len(miss) > 0 {
						fs = append(fs, sched.Finding{Key: "manifest-not-closed", What: fmt.Sprintf("the log loaded from a returned manifest lacks %v", miss)})
					}
					// the published state must be one the log really had: a prefix of the final chain
					s := setOf(l)
					loaded = append(loaded, s)
					if !isPrefixState(s, payloads(w.a.Values().Slice())) {
						fs = append(fs, sched.Finding{Key: "manifest-not-a-state", What: "the manifest loads to {" + s + "}, which the log never held (final values " + strings.Join(payloads(w.a.Values().Slice()), ",") + ")"})
					}
				}
				for _, rs := range w.recs {
					for _, r := range rs {
						if r.unstored {
							fs = append(fs, sched.Finding{Key: "returned-entry-not-stored-at-return", What: fmt.Sprintf("%s returned an entry whose block was not in the store at the instant of the return", r.name)})
						}
						if r.entry != nil && r.err == nil {
							if _, err := ipfslog.NewFromEntryHash(world.Ctx, view, world.IDs[0], r.entry.GetHash(), &ipfslog.LogOptions{ID: "X"}, &ipfslog.FetchOptions{}); err != nil || !view.Has(r.entry.GetHash()) {
								fs = append(fs, sched.Finding{Key: "returned-entry-not-stored", What: fmt.Sprintf("%s returned an entry whose block does not load: %v", r.name, err)})
							}
						}
					}
				}
				sort.Strings(loaded)
				return out + " pubs=" + strings.Join(loaded, "|"), fs
			}}
		}}}
	}
	pub := func(w *w13, slot int, pubs *[]cid.Cid) {
		c, err := w.a.ToMultihash(world.Ctx)
		if err != nil {
			w.obs.add(slot, "publish-error: "+err.Error())
			return
		}
		if !w.st.Has(c) { // no scheduling point since the return
			w.obs.add(slot, "manifest-not-stored-at-return")
		}
		addPub(pubs, c)
	}
	twin := func(w *w13) *ipfslog.IPFSLog {
		// a second instance of log A (same identity, same id, same state): what it writes is byte-identical to what A writes
		l, err := ipfslog.NewFromEntry(world.Ctx, w.st, world.IDs[0], w.a.Heads().Slice(), &ipfslog.LogOptions{ID: "X"}, &iface.FetchOptions{})
		if err != nil {
			panic(err)
		}
		w.st.ResetCalls()
		return l
	}
	return []Spec{
		mk("C17/publish|publish (identical manifest)", 2, func(w *w13, pubs *[]cid.Cid) []func() {
			return []func(){func() { pub(w, 0, pubs) }, func() { pub(w, 1, pubs) }}
		}),
		mk("C17/append|append(twin) (identical entry)", 2, func(w *w13, pubs *[]cid.Cid) []func() {
			t := twin(w)
			return []func(){func() { w.appendOp(0, w.a, "x1") }, func() { w.appendOp(1, t, "x1") }}
		}),
		mk("C17/append;publish|append(twin);publish(twin)", 2, func(w *w13, pubs *[]cid.Cid) []func() {
			t := twin(w)
			return []func(){func() { w.appendOp(0, w.a, "x1"); pub(w, 0, pubs) }, func() {
				w.appendOp(1, t, "x1")
				if c, err := t.ToMultihash(world.Ctx); err == nil {
					if !w.st.Has(c) {
						w.obs.add(1, "manifest-not-stored-at-return")
					}
					addPub(pubs, c)
				}
			}}
		}),
		mk("C17/append|publish", 2, func(w *w13, pubs *[]cid.Cid) []func() {
			return []func(){func() { w.appendOp(0, w.a, "x1") }, func() { pub(w, 1, pubs) }}
		}),
		mk("C17/append|publish|append", 3, func(w *w13, pubs *[]cid.Cid) []func() {
			return []func(){func() { w.appendOp(0, w.a, "x1") }, func() { pub(w, 1, pubs) }, func() { w.appendOp(2, w.a, "y1") }}
		}),
		mk("C17/append;publish|append(B)|join", 3, func(w *w13, pubs *[]cid.Cid) []func() {
			return []func(){func() { w.appendOp(0, w.a, "x1"); pub(w, 0, pubs) }, func() { w.appendOp(1, w.b, "q1") }, func() { w.joinOp(2, w.a, w.b, -1, "join:A<-B") }}
		}),
	}
}

//go:norace
func addPub(pubs *[]cid.Cid, c cid.Cid) { *pubs = append(*pubs, c) }

// isPrefixState: the set s (comma separated, sorted) equals the set of some prefix-closed part of the final history.
// For the scenarios here the log only grows, so every state it held is a subset of the final entries that is closed under predecessors;
// closure is checked separately, so membership is what is left.
func isPrefixState(s string, final []string) bool {
	have := map[string]bool{}
	for _, f := range final {
		have[f] = true
	}
	for _, x := range strings.Split(s, ",") {
		if x != "" && !have[x] {
			return false
		}
	}
	return true
}

func init() {
	register(&Check{ID: "C06", Scenarios: c06Scenarios})
	register(&Check{ID: "C17", Scenarios: c17Scenarios})
}

// inspectingAC permits everything after looking at the entries the log holds.
type inspectingAC struct{}

func (inspectingAC) CanAppend(_ accesscontroller.LogEntry, _ idp.Interface, ctx accesscontroller.CanAppendAdditionalContext) error {
	if ctx != nil {
		_ = ctx.GetLogEntries()
	}
	return nil
}
