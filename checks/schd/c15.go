package schd

import (
	"fmt"
	"github.com/ipfs/go-cid"
	"sort"

	ipfslog "berty.tech/go-ipfs-log"
	"berty.tech/go-ipfs-log/iface"
	"berty.tech/go-ipfs-log/zvsync"

	"verif/engine/sched"
	"verif/engine/world"
)

// C15 (concurrent part): iteration always ends and always closes its output channel, also when the consumer is
// slower than the producer. The output channel holds ONE entry (engine/instr turns the library's send statements
// into visible waits, see DESIGN 4.5), the log has three entries (one more than the producer can hand over without the consumer taking a second one), and the consumer does something with the log
// between two receives: appends (needs the write lock), reads (needs the read lock, while a third thread's append
// is queued), or nothing. In every schedule: no deadlock, Iterator returns nil, the channel is closed, and what was
// received is a state the log had (newest first, no duplicates, closed under predecessors, all entries present at
// the call).

func c15Scenarios(tier string) []Spec {
	b := 1
	if tier == "thorough" {
		b = 2
	}
	type consumerKind struct {
		name    string
		between func(w *w13, slot, n int)
		third   func(w *w13) func()
	}
	kinds := []consumerKind{
		{"idle", func(*w13, int, int) {}, nil},
		{"appends", func(w *w13, slot, n int) {
			if n == 1 {
				w.appendOp(slot, w.a, "x1")
			}
		}, nil},
		{"reads|append", func(w *w13, slot, n int) { _ = w.a.Heads(); _ = w.a.Len() }, func(w *w13) func() { return func() { w.appendOp(2, w.a, "y1") } }},
		{"merges", func(w *w13, slot, n int) {
			if n == 2 {
				w.joinOp(slot, w.a, w.b, -1, "join:A<-B")
			}
		}, nil},
	}
	var specs []Spec
	for _, upper := range []string{"default", "lt-head", "lte-second"} {
		upper := upper
		for _, k := range kinds {
			k := k
			if upper != "default" && k.name != "appends" && k.name != "idle" {
				continue // the bounded iterations with the two cheapest consumers
			}
			threads := 2
			if k.third != nil {
				threads = 3
			}
			bound, rb := b, 1
			if threads == 3 || k.name == "merges" {
				// the free switches alone (a polling thread is never "running") are 1-7k executions each; one preemption
				// on top of them in the thorough tier
				bound, rb = 0, 0
				if tier == "thorough" {
					bound, rb = 1, 1
				}
			}
			specs = append(specs, Spec{Bound: bound, RaceBound: rb, Shards: 2, Sc: sched.Scenario{Name: "C15/iterator(" + upper + ", channel of 1)|consumer " + k.name, Make: func() *sched.Instance {
				w := newW13Sized(threads, true) // A = a1; B = b1
				mustAppend(w.a, "a2")
				mustAppend(w.a, "a3")
				mustAppend(w.b, "b2")
				vals0 := w.a.Values().Slice()
				opts := &ipfslog.IteratorOptions{}
				initial := setOfEntries(vals0)
				switch upper {
				case "lt-head": // everything below the head
					opts.LT = []cid.Cid{vals0[len(vals0)-1].GetHash()}
					initial = setOfEntries(vals0[:len(vals0)-1])
				case "lte-second": // the second entry and what is below it
					opts.LTE = []cid.Cid{vals0[1].GetHash()}
					initial = setOfEntries(vals0[:2])
				}
				ch := make(chan iface.IPFSLogEntry, 1)
				var iterErr error
				returned := false
				var got []iface.IPFSLogEntry
				closed := false
				bodies := []func(){
					func() { iterErr = w.a.Iterator(opts, ch); returned = true },
					func() {
						for {
							e, ok := zvsync.Recv(ch)
							if !ok {
								closed = true
								return
							}
							got = append(got, e)
							k.between(w, 1, len(got))
						}
					},
				}
				if k.third != nil {
					bodies = append(bodies, k.third(w))
				}
				return &sched.Instance{Bodies: bodies, Check: func(res *zvsync.Result) (string, []sched.Finding) {
					var fs []sched.Finding
					if res.Deadlock {
						return "deadlock", nil // reported by the explorer with the blocked operations
					}
					if !returned {
						fs = append(fs, sched.Finding{Key: "iterator-did-not-return", What: "Iterator did not return"})
					} else if iterErr != nil {
						fs = append(fs, sched.Finding{Key: "iterator-error", What: "Iterator failed: " + iterErr.Error()})
					} else if !closed {
						fs = append(fs, sched.Finding{Key: "channel-not-closed", What: "Iterator returned nil but the output channel was not closed"})
					}
					seen := map[string]bool{}
					for i, e := range got {
						h := e.GetHash().String()
						if seen[h] {
							fs = append(fs, sched.Finding{Key: "duplicates", What: fmt.Sprintf("entry %s emitted twice", string(e.GetPayload()))})
						}
						seen[h] = true
						if i > 0 && e.GetClock().GetTime() > got[i-1].GetClock().GetTime() {
							fs = append(fs, sched.Finding{Key: "not-newest-first", What: fmt.Sprintf("emitted %v", payloads(got))})
						}
					}
					if iterErr == nil && closed {
						for h := range initial {
							if !seen[h] {
								fs = append(fs, sched.Finding{Key: "entry-missing", What: fmt.Sprintf("emitted %v: an entry the log held when Iterator was called is missing", payloads(got))})
								break
							}
						}
						for _, e := range got {
							for _, n := range e.GetNext() {
								if _, held := w.a.Get(n); held && !seen[n.String()] {
									fs = append(fs, sched.Finding{Key: "not-closed-under-predecessors", What: fmt.Sprintf("emitted %v: a predecessor of %s that the log holds is missing", payloads(got), string(e.GetPayload()))})
								}
							}
						}
					}
					out, ffs := w.finalCheck(w.a, "A", false)
					fs = append(fs, ffs...)
					ps := payloads(got)
					sort.Strings(ps)
					return fmt.Sprintf("emitted=%v %s", ps, out), fs
				}}
			}}})
		}
	}
	return specs
}

func init() { register(&Check{ID: "C15", Scenarios: c15Scenarios}) }

var _ = world.Ctx
