package schd

import (
	"context"
	"fmt"
	"sort"
	"strings"
	"time"

	ipfslog "berty.tech/go-ipfs-log"
	"berty.tech/go-ipfs-log/entry"
	"berty.tech/go-ipfs-log/iface"
	"berty.tech/go-ipfs-log/zvsync"
	"github.com/ipfs/go-cid"

	"verif/engine/sched"
	"verif/engine/seqx"
	"verif/engine/store"
	"verif/engine/world"
)

// The loader / fetcher scenarios of C09, C10, C11: one caller thread runs a loader on a stored
// log; the fetcher spawns its worker threads; every store Get is a scheduling point, so the
// explorer enumerates worker interleavings and block completion orders.

func init() { seqx.StoreFactory = NewStore }

var cfgFetch = &seqx.Config{Name: "fetch3", Writers: []int{0, 1, 2}, PC: 4}

// callerDeadline is the caller's own, far-away deadline in CallerDeadline scenarios.
const callerDeadline = time.Hour

type loadSpec struct {
	Shape   string
	Loader  string // multihash | entryhash | json | entry
	Conc    int
	N       int         // -1: no length limit
	Faults  map[int]int // position in Values() order -> store.Fault
	Exclude []int       // positions excluded through ShouldExclude
	// ExcludeNone: a ShouldExclude predicate is given and says no to everything (caller code runs inside the fetcher)
	ExcludeNone bool
	Timeout     bool // load with a timeout (virtual timer)
	// CallerDeadline: the caller's own context carries a deadline an hour away (far later than the configured timeout)
	CallerDeadline bool
	Perm           int // index of the permutation in which the heads are handed to the loader (0 = the log's own order)
}

func (s loadSpec) name(prefix string) string {
	var parts []string
	parts = append(parts, prefix, s.Shape, s.Loader, fmt.Sprintf("c%d", s.Conc))
	if s.N >= 0 {
		parts = append(parts, fmt.Sprintf("n%d", s.N))
	}
	if len(s.Faults) > 0 {
		var ks []int
		for k := range s.Faults {
			ks = append(ks, k)
		}
		sort.Ints(ks)
		var fs []string
		for _, k := range ks {
			fs = append(fs, fmt.Sprintf("%d=%s", k, store.Fault(s.Faults[k])))
		}
		parts = append(parts, "faults["+strings.Join(fs, ",")+"]")
	}
	if len(s.Exclude) > 0 {
		parts = append(parts, fmt.Sprintf("excl%v", s.Exclude))
	}
	if s.ExcludeNone {
		parts = append(parts, "predicate-excluding-nothing")
	}
	if s.Timeout {
		parts = append(parts, "timeout")
	}
	if s.CallerDeadline {
		parts = append(parts, "caller-deadline-1h")
	}
	if s.Perm > 0 {
		parts = append(parts, fmt.Sprintf("headorder%d", s.Perm))
	}
	return strings.Join(parts, "/")
}

// stored is a shape built once and shared by all executions of the scenarios over it (loads only read the store).
type stored struct {
	w      *seqx.World
	log    *ipfslog.IPFSLog
	vals   []iface.IPFSLogEntry // Values() order
	heads  []iface.IPFSLogEntry // Heads() order
	byHash map[string]iface.IPFSLogEntry
	pos    map[string]int
	mh     cid.Cid
}

var storedCache = map[string]*stored{}

func getStored(shape string) *stored {
	if s, ok := storedCache[shape]; ok {
		return s
	}
	w := seqx.Replay(cfgFetch, seqx.Shapes[shape])
	l := w.Logs[0]
	s := &stored{w: w, log: l, vals: l.Values().Slice(), heads: l.Heads().Slice(), byHash: map[string]iface.IPFSLogEntry{}, pos: map[string]int{}}
	for i, e := range s.vals {
		s.byHash[e.GetHash().String()] = e
		s.pos[e.GetHash().String()] = i
	}
	mh, err := l.ToMultihash(world.Ctx)
	if err != nil {
		panic(err)
	}
	s.mh = mh
	storedCache[shape] = s
	return s
}

// reach computes the entries reachable from start over next ∪ refs through entries that are
// retrievable (fault OK) and not excluded.
func (s *stored) reach(start []cid.Cid, bad map[string]bool) map[string]bool {
	out := map[string]bool{}
	stack := append([]cid.Cid{}, start...)
	for len(stack) > 0 {
		c := stack[len(stack)-1]
		stack = stack[:len(stack)-1]
		k := c.String()
		if out[k] || bad[k] {
			continue
		}
		e, ok := s.byHash[k]
		if !ok {
			continue
		}
		out[k] = true
		stack = append(stack, e.GetNext()...)
		stack = append(stack, e.GetRefs()...)
	}
	return out
}

func (s *stored) names(set map[string]bool) []string {
	var r []string
	for k := range set {
		r = append(r, string(s.byHash[k].GetPayload()))
	}
	sort.Strings(r)
	return r
}

type loadResult struct {
	log     *ipfslog.IPFSLog
	entries []iface.IPFSLogEntry // for the direct FetchAll "loader"
	err     error
	ret     bool
}

// makeLoad builds the scenario of one load.
func makeLoad(prefix string, ls loadSpec, judge func(s *stored, ls loadSpec, st *store.Store, r *loadResult, start []cid.Cid, res *zvsync.Result) (string, []sched.Finding)) sched.Scenario {
	return sched.Scenario{Name: ls.name(prefix), Make: func() *sched.Instance {
		s := getStored(ls.Shape)
		st := s.w.St.View(len(s.w.St.Adds))
		bad := map[string]bool{}
		for p, f := range ls.Faults {
			st.Faults[s.vals[p].GetHash().KeyString()] = store.Fault(f)
		}
		excl := map[string]bool{}
		for _, p := range ls.Exclude {
			excl[s.vals[p].GetHash().String()] = true
		}
		_ = bad
		heads := permuteEntries(s.heads, ls.Perm)
		var start []cid.Cid
		switch ls.Loader {
		case "entryhash":
			start = []cid.Cid{heads[0].GetHash()}
		default:
			for _, h := range heads {
				start = append(start, h.GetHash())
			}
		}
		mh := s.mh
		if ls.Perm > 0 && ls.Loader == "multihash" {
			// a manifest written by someone else may list the heads in any order
			c, err := s.log.IO().Write(world.Ctx, st, &iface.JSONLog{ID: "X", Heads: start}, nil)
			if err != nil {
				panic(err)
			}
			mh = c
			st.ResetCalls()
		}
		r := &loadResult{}
		var lp *int
		if ls.N >= 0 {
			n := ls.N
			lp = &n
		}
		var to time.Duration
		if ls.Timeout {
			to = time.Second
		}
		var shouldExclude iface.ExcludeFunc
		if len(excl) > 0 || ls.ExcludeNone {
			shouldExclude = func(c cid.Cid) bool { return excl[c.String()] }
		}
		body := func() {
			lo := &ipfslog.LogOptions{ID: "X"}
			ctx := world.Ctx
			if ls.CallerDeadline {
				var cancel context.CancelFunc
				ctx, cancel = zvsync.WithTimeout(ctx, callerDeadline)
				defer cancel()
			}
			switch ls.Loader {
			case "multihash":
				r.log, r.err = ipfslog.NewFromMultihash(ctx, st, world.IDs[0], mh, lo, &ipfslog.FetchOptions{Length: lp, Concurrency: ls.Conc, ShouldExclude: shouldExclude, Timeout: to})
			case "entryhash":
				r.log, r.err = ipfslog.NewFromEntryHash(ctx, st, world.IDs[0], start[0], lo, &ipfslog.FetchOptions{Length: lp, Concurrency: ls.Conc, ShouldExclude: shouldExclude, Timeout: to})
			case "json":
				r.log, r.err = ipfslog.NewFromJSON(ctx, st, world.IDs[0], &iface.JSONLog{ID: "X", Heads: start}, lo, &iface.FetchOptions{Length: lp, Concurrency: ls.Conc, Timeout: to})
			case "fetchall":
				r.entries = entry.FetchAll(ctx, st, start, &iface.FetchOptions{Concurrency: ls.Conc, ShouldExclude: shouldExclude, Timeout: to})
			case "entry":
				r.log, r.err = ipfslog.NewFromEntry(ctx, st, world.IDs[0], append([]iface.IPFSLogEntry{}, heads...), lo, &iface.FetchOptions{Length: lp, Concurrency: ls.Conc, Timeout: to})
			}
			r.ret = true
		}
		return &sched.Instance{Bodies: []func(){body}, Check: func(res *zvsync.Result) (string, []sched.Finding) {
			return judge(s, ls, st, r, start, res)
		}}
	}}
}

func requestFindings(s *stored, st *store.Store, excl map[string]bool) []sched.Finding {
	var fs []sched.Finding
	seen := map[string]int{}
	for _, c := range st.Gets() {
		seen[c.String()]++
		if excl[c.String()] {
			fs = append(fs, sched.Finding{Key: "requested-excluded", What: "an excluded hash was requested from the store: " + nameOf(s, c)})
		}
	}
	for k, n := range seen {
		if n > 1 {
			c, _ := cid.Decode(k)
			fs = append(fs, sched.Finding{Key: "requested-twice", What: fmt.Sprintf("block %s was requested %d times", nameOf(s, c), n)})
		}
	}
	return fs
}

func nameOf(s *stored, c cid.Cid) string {
	if e, ok := s.byHash[c.String()]; ok {
		return string(e.GetPayload())
	}
	if c.Equals(s.mh) {
		return "<manifest>"
	}
	return c.String()
}

// ---------------------------------------------------------------------------
// C09: unbounded rebuild equals the original

func judgeC09(s *stored, ls loadSpec, st *store.Store, r *loadResult, start []cid.Cid, _ *zvsync.Result) (string, []sched.Finding) {
	var fs []sched.Finding
	if !r.ret {
		return "no-return", []sched.Finding{{Key: "load-did-not-return", What: "the loader did not return"}}
	}
	if r.err != nil {
		return "error", []sched.Finding{{Key: "load-error:" + ls.Loader, What: "loader failed: " + r.err.Error()}}
	}
	want := s.reach(start, nil)
	got := map[string]bool{}
	for _, e := range r.log.GetEntries().Slice() {
		got[e.GetHash().String()] = true
	}
	outcome := fmt.Sprintf("entries=%v heads=%v", payloads(r.log.Values().Slice()), sortedPayloads(r.log.Heads().Slice()))
	if len(got) != len(want) || !subset(want, got) {
		fs = append(fs, sched.Finding{Key: "rebuild-entries:" + ls.Loader, What: fmt.Sprintf("rebuilt log holds %v, the original (reachable from the given heads) holds %v", payloads(r.log.Values().Slice()), s.names(want))})
		return outcome, fs
	}
	// the same entries, not only the same hashes: blocks are decoded by several workers at once
	for _, e := range r.log.GetEntries().Slice() {
		if o := s.byHash[e.GetHash().String()]; o != nil && seqx.DumpEntry(e) != seqx.DumpEntry(o) {
			fs = append(fs, sched.Finding{Key: "rebuild-entry-content:" + ls.Loader, What: fmt.Sprintf("rebuilt entry %s differs from the original:\n  rebuilt  %s\n  original %s", string(o.GetPayload()), seqx.DumpEntry(e), seqx.DumpEntry(o))})
			break
		}
	}
	if r.log.GetID() != s.log.GetID() {
		fs = append(fs, sched.Finding{Key: "rebuild-id:" + ls.Loader, What: "rebuilt log has id " + r.log.GetID()})
	}
	// heads and values of the sub-log reachable from start
	var wantHeads []string
	ref := map[string]bool{}
	for k := range want {
		for _, n := range s.byHash[k].GetNext() {
			ref[n.String()] = true
		}
	}
	for k := range want {
		if !ref[k] {
			wantHeads = append(wantHeads, string(s.byHash[k].GetPayload()))
		}
	}
	sort.Strings(wantHeads)
	if gh := sortedPayloads(r.log.Heads().Slice()); strings.Join(gh, ",") != strings.Join(wantHeads, ",") {
		fs = append(fs, sched.Finding{Key: "rebuild-heads:" + ls.Loader, What: fmt.Sprintf("rebuilt log has heads %v, expected %v", gh, wantHeads)})
	}
	var wantVals []string
	for _, e := range s.vals {
		if want[e.GetHash().String()] {
			wantVals = append(wantVals, string(e.GetPayload()))
		}
	}
	if gv := payloads(r.log.Values().Slice()); strings.Join(gv, ",") != strings.Join(wantVals, ",") {
		fs = append(fs, sched.Finding{Key: "rebuild-values:" + ls.Loader, What: fmt.Sprintf("rebuilt log linearises as %v, the original as %v", gv, wantVals)})
	}
	fs = append(fs, requestFindings(s, st, nil)...)
	// every block of the log is requested exactly once
	if ls.Loader != "entry" || true {
		req := map[string]bool{}
		for _, c := range st.Gets() {
			req[c.String()] = true
		}
		for k := range want {
			if !req[k] {
				fs = append(fs, sched.Finding{Key: "not-requested", What: "entry " + string(s.byHash[k].GetPayload()) + " is in the result but was never requested from the store"})
			}
		}
	}
	return outcome, fs
}

func subset(a, b map[string]bool) bool {
	for k := range a {
		if !b[k] {
			return false
		}
	}
	return true
}

func c09Scenarios(tier string) []Spec {
	shapes := []string{"chain3", "chain4", "fork", "diamond", "heads3"}
	concs := []int{1, 2}
	if tier == "thorough" {
		shapes = append(shapes, "stale", "chain6", "wide")
		concs = []int{1, 2, 3, 32}
	}
	var specs []Spec
	for _, sh := range shapes {
		for _, ld := range []string{"multihash", "entryhash", "json", "entry"} {
			for _, c := range concs {
				ls := loadSpec{Shape: sh, Loader: ld, Conc: c, N: -1}
				specs = append(specs, Spec{HBCache: true, RaceBound: 1, Shards: 1, Sc: makeLoad("C09", ls, judgeC09)})
			}
		}
	}
	for _, sh := range []string{"fork", "heads3"} {
		st := getStored(sh)
		for pm := 1; pm < factorial(len(st.heads)); pm++ {
			for _, ld := range []string{"json", "entry", "multihash"} {
				ls := loadSpec{Shape: sh, Loader: ld, Conc: 2, N: -1, Perm: pm}
				specs = append(specs, Spec{HBCache: true, RaceBound: 1, Shards: 1, NoRace: true, Sc: makeLoad("C09", ls, judgeC09)})
			}
		}
	}
	return specs
}

func init() {
	register(&Check{ID: "C09", Scenarios: c09Scenarios})
}

// permuteEntries returns the k-th permutation (lexicographic over indices) of es; k = 0 is es itself.
func permuteEntries(es []iface.IPFSLogEntry, k int) []iface.IPFSLogEntry {
	if k == 0 {
		return es
	}
	perms := allPerms(len(es))
	pm := perms[k%len(perms)]
	out := make([]iface.IPFSLogEntry, len(es))
	for i, j := range pm {
		out[i] = es[j]
	}
	return out
}

func allPerms(n int) [][]int {
	var res [][]int
	a := make([]int, n)
	for i := range a {
		a[i] = i
	}
	var rec func(k int)
	rec = func(k int) {
		if k == n {
			res = append(res, append([]int{}, a...))
			return
		}
		for i := k; i < n; i++ {
			a[k], a[i] = a[i], a[k]
			rec(k + 1)
			a[k], a[i] = a[i], a[k]
		}
	}
	rec(0)
	return res
}

func factorial(n int) int {
	f := 1
	for i := 2; i <= n; i++ {
		f *= i
	}
	return f
}
