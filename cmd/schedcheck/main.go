// schedcheck runs the Engine B part of a property check (overlay build).
//
//	schedcheck run <ID> <tier> <partfile> [journaldir]
//	schedcheck replay <replayfile> <partfile>
//	schedcheck litmus
package main

import (
	"encoding/json"
	"fmt"
	"os"
	"strings"

	"verif/checks/schd"
	"verif/engine/run"
	"verif/engine/world"

	"berty.tech/go-ipfs-log/zvsync"
)

func raceLog() string {
	if !schd.RaceBuild {
		return ""
	}
	for _, f := range strings.Fields(os.Getenv("GORACE")) {
		if strings.HasPrefix(f, "log_path=") {
			return strings.TrimPrefix(f, "log_path=")
		}
	}
	fmt.Fprintln(os.Stderr, "schedcheck: race build needs GORACE=\"halt_on_error=0 log_path=<prefix>\"")
	os.Exit(3)
	return ""
}

func main() {
	if len(os.Args) < 2 {
		os.Exit(3)
	}
	world.MemoOK = func() bool { return !zvsync.Controlled() }
	world.Init()
	engine := "sched"
	if schd.RaceBuild {
		engine = "schedrace"
	}
	switch os.Args[1] {
	case "litmus":
		fails := schd.RunLitmus(raceLog())
		for _, f := range fails {
			fmt.Println("LITMUS FAILURE:", f)
		}
		if len(fails) > 0 {
			os.Exit(3)
		}
		fmt.Println("litmus ok (race build:", schd.RaceBuild, ")")
	case "run":
		id, tier, out := os.Args[2], os.Args[3], os.Args[4]
		if schd.Registry[id] == nil {
			fmt.Fprintln(os.Stderr, "schedcheck: no such check", id)
			os.Exit(3)
		}
		if len(os.Args) > 5 {
			run.TheJournal = run.OpenJournal(os.Args[5])
		}
		if fails := schd.RunLitmus(raceLog()); len(fails) > 0 {
			for _, f := range fails {
				fmt.Fprintln(os.Stderr, "LITMUS FAILURE:", f)
			}
			os.Exit(3)
		}
		p := run.NewPart(id, engine, tier)
		p.Rule = "one execution = one complete schedule of the scenario on the real code under the controlled scheduler; states = distinct happens-before state keys (HB-cached mode) or executions (bounded mode); non-trivial = distinct (scenario, outcome) pairs"
		p.Assume("scheduling points are the sync.Mutex/RWMutex/WaitGroup/Cond, x/sync semaphore, go-statement and context.WithTimeout operations that engine/instr routes to the shim, plus every store Add/Get; sync/atomic and raw channel operations are not intercepted (a thread blocking on one is reported as uncontrollable, never as a violation)",
			"sequential consistency; data-race freedom is judged by the Go race detector over the bounded schedules of the -race part, through the shim's happens-before annotations (validated by the litmus programs before every run)",
			"happens-before state caching is sound for data-race-free code; it is switched off for a scenario as soon as a race is reported",
			"RWMutex is modelled writer-preferring in two steps (announce, acquire) as in the Go runtime; Cond.Signal wakes waiters in FIFO order; virtual timers fire last on the default schedule and at every earlier point as alternatives")
		jd := ""
		if len(os.Args) > 5 {
			jd = os.Args[5]
		}
		schd.RunCheck(p, id, tier, raceLog(), jd)
		if err := p.Write(out); err != nil {
			fmt.Fprintln(os.Stderr, "schedcheck:", err)
			os.Exit(3)
		}
	case "job":
		// job <ID> <tier> <spec> <shard> <shards> <out> <journaldir> <slot>
		a := os.Args
		atoi := func(s string) int { n := 0; fmt.Sscan(s, &n); return n }
		if a[8] != "" {
			run.TheJournal = run.OpenJournal(a[8])
		}
		schd.RunJob(a[2], a[3], atoi(a[4]), atoi(a[5]), atoi(a[6]), atoi(a[9]), raceLog(), a[7], int64(atoi(a[10])))
	case "jobs":
		// jobs <ID> <tier> <listfile> <journaldir> <slot> <deadline>
		a := os.Args
		atoi := func(s string) int { n := 0; fmt.Sscan(s, &n); return n }
		if a[5] != "" {
			run.TheJournal = run.OpenJournal(a[5])
		}
		schd.RunJobs(a[2], a[3], a[4], atoi(a[6]), raceLog(), int64(atoi(a[7])))
	case "replay":
		b, err := os.ReadFile(os.Args[2])
		if err != nil {
			fmt.Fprintln(os.Stderr, err)
			os.Exit(3)
		}
		var v run.Violation
		if err := json.Unmarshal(b, &v); err != nil {
			fmt.Fprintln(os.Stderr, err)
			os.Exit(3)
		}
		p := run.NewPart(v.Property, engine, "replay")
		info := schd.ReplayCase(p, v.Property, v.Case, raceLog())
		if len(os.Args) > 3 {
			p.Write(os.Args[3])
		}
		fmt.Println(info)
		for _, x := range p.Violations {
			fmt.Printf("reproduced: key=%s %s\n", x.Key, x.What)
		}
		if len(p.Violations) > 0 {
			os.Exit(1)
		}
		fmt.Println("not reproduced on this tree")
	default:
		os.Exit(3)
	}
}
