// seqcheck runs the Engine A / Engine C part of a property check on the plain tree.
//
//	seqcheck run <ID> <tier> <partfile> [journaldir]
//	seqcheck replay <replayfile> <partfile>
package main

import (
	"encoding/json"
	"fmt"
	"os"

	"verif/checks/seq"
	"verif/engine/run"
	"verif/engine/world"
)

func main() {
	if len(os.Args) < 2 {
		fmt.Fprintln(os.Stderr, "usage: seqcheck run <ID> <tier> <partfile> [journaldir] | replay <file> <partfile> | list")
		os.Exit(3)
	}
	world.Init()
	switch os.Args[1] {
	case "list":
		for id := range seq.Registry {
			fmt.Println(id)
		}
	case "c08digest":
		fmt.Println(seq.C08Digest(os.Args[2]))
	case "run":
		id, tier, out := os.Args[2], os.Args[3], os.Args[4]
		c := seq.Registry[id]
		if c == nil {
			fmt.Fprintln(os.Stderr, "seqcheck: no such check", id)
			os.Exit(3)
		}
		if len(os.Args) > 5 {
			run.TheJournal = run.OpenJournal(os.Args[5])
		}
		p := run.NewPart(id, "seq", tier)
		c.Run(p, tier)
		if err := p.Write(out); err != nil {
			fmt.Fprintln(os.Stderr, "seqcheck:", err)
			os.Exit(3)
		}
	case "replay":
		b, err := os.ReadFile(os.Args[2])
		if err != nil {
			fmt.Fprintln(os.Stderr, "seqcheck:", err)
			os.Exit(3)
		}
		var v run.Violation
		if err := json.Unmarshal(b, &v); err != nil {
			fmt.Fprintln(os.Stderr, "seqcheck:", err)
			os.Exit(3)
		}
		c := seq.Registry[v.Property]
		if c == nil || c.Replay == nil {
			fmt.Fprintln(os.Stderr, "seqcheck: no replay for", v.Property)
			os.Exit(3)
		}
		p := run.NewPart(v.Property, "seq", "replay")
		c.Replay(p, v.Check, v.Case)
		if len(os.Args) > 3 {
			p.Write(os.Args[3])
		}
		for _, x := range p.Violations {
			fmt.Printf("reproduced: key=%s %s\n", x.Key, x.What)
		}
		if len(p.Violations) > 0 {
			os.Exit(1)
		}
		fmt.Println("not reproduced: the recorded case passes every oracle on this tree")
	default:
		os.Exit(3)
	}
}
