module verif

go 1.22

require (
	berty.tech/go-ipfs-log v0.0.0
	github.com/ipfs/boxo v0.20.0
	github.com/ipfs/go-block-format v0.2.0
	github.com/ipfs/go-cid v0.4.1
	github.com/ipfs/go-datastore v0.6.0
	github.com/ipfs/go-ipld-cbor v0.1.0
	github.com/ipfs/go-ipld-format v0.6.0
	github.com/ipfs/go-merkledag v0.11.0
	github.com/ipfs/kubo v0.29.0
)

require (
	github.com/anishathalye/porcupine v1.3.0
	github.com/beorn7/perks v1.0.1 // indirect
	github.com/btcsuite/btcd v0.22.1 // indirect
	github.com/cespare/xxhash/v2 v2.3.0 // indirect
	github.com/crackcomm/go-gitignore v0.0.0-20231225121904-e25f5bc08668 // indirect
	github.com/decred/dcrd/dcrec/secp256k1/v4 v4.3.0
	github.com/go-logr/logr v1.4.1 // indirect
	github.com/go-logr/stdr v1.2.2 // indirect
	github.com/gogo/protobuf v1.3.2 // indirect
	github.com/google/gopacket v1.1.19 // indirect
	github.com/google/uuid v1.6.0 // indirect
	github.com/hashicorp/errwrap v1.1.0 // indirect
	github.com/hashicorp/go-multierror v1.1.1 // indirect
	github.com/hashicorp/golang-lru v1.0.2 // indirect
	github.com/hashicorp/golang-lru/v2 v2.0.7 // indirect
	github.com/ipfs/bbloom v0.0.4 // indirect
	github.com/ipfs/go-blockservice v0.5.2 // indirect
	github.com/ipfs/go-ipfs-blockstore v1.3.1 // indirect
	github.com/ipfs/go-ipfs-ds-help v1.1.1 // indirect
	github.com/ipfs/go-ipfs-exchange-interface v0.2.1 // indirect
	github.com/ipfs/go-ipfs-util v0.0.3 // indirect
	github.com/ipfs/go-ipld-legacy v0.2.1 // indirect
	github.com/ipfs/go-log v1.0.5 // indirect
	github.com/ipfs/go-log/v2 v2.5.1 // indirect
	github.com/ipfs/go-metrics-interface v0.0.1 // indirect
	github.com/ipfs/go-verifcid v0.0.3 // indirect
	github.com/ipld/go-codec-dagpb v1.6.0 // indirect
	github.com/ipld/go-ipld-prime v0.21.0 // indirect
	github.com/jbenet/goprocess v0.1.4 // indirect
	github.com/klauspost/cpuid/v2 v2.2.7 // indirect
	github.com/libp2p/go-buffer-pool v0.1.0 // indirect
	github.com/libp2p/go-cidranger v1.1.0 // indirect
	github.com/libp2p/go-libp2p v0.34.1
	github.com/libp2p/go-libp2p-asn-util v0.4.1 // indirect
	github.com/libp2p/go-libp2p-kad-dht v0.25.2 // indirect
	github.com/libp2p/go-libp2p-kbucket v0.6.3 // indirect
	github.com/libp2p/go-libp2p-record v0.2.0 // indirect
	github.com/libp2p/go-libp2p-routing-helpers v0.7.3 // indirect
	github.com/libp2p/go-msgio v0.3.0 // indirect
	github.com/libp2p/go-netroute v0.2.1 // indirect
	github.com/mattn/go-isatty v0.0.20 // indirect
	github.com/miekg/dns v1.1.59 // indirect
	github.com/minio/sha256-simd v1.0.1 // indirect
	github.com/mr-tron/base58 v1.2.0 // indirect
	github.com/multiformats/go-base32 v0.1.0 // indirect
	github.com/multiformats/go-base36 v0.2.0 // indirect
	github.com/multiformats/go-multiaddr v0.12.4 // indirect
	github.com/multiformats/go-multiaddr-dns v0.3.1 // indirect
	github.com/multiformats/go-multibase v0.2.0
	github.com/multiformats/go-multicodec v0.9.0 // indirect
	github.com/multiformats/go-multihash v0.2.3
	github.com/multiformats/go-multistream v0.5.0 // indirect
	github.com/multiformats/go-varint v0.0.7 // indirect
	github.com/opentracing/opentracing-go v1.2.0 // indirect
	github.com/polydawn/refmt v0.89.0 // indirect
	github.com/prometheus/client_golang v1.19.1 // indirect
	github.com/prometheus/client_model v0.6.1 // indirect
	github.com/prometheus/common v0.53.0 // indirect
	github.com/prometheus/procfs v0.15.0 // indirect
	github.com/samber/lo v1.39.0 // indirect
	github.com/spaolacci/murmur3 v1.1.0 // indirect
	github.com/whyrusleeping/base32 v0.0.0-20170828182744-c30ac30633cc // indirect
	github.com/whyrusleeping/cbor-gen v0.1.1 // indirect
	github.com/whyrusleeping/go-keyspace v0.0.0-20160322163242-5b898ac5add1 // indirect
	go.opencensus.io v0.24.0 // indirect
	go.opentelemetry.io/otel v1.26.0 // indirect
	go.opentelemetry.io/otel/metric v1.26.0 // indirect
	go.opentelemetry.io/otel/trace v1.26.0 // indirect
	go.uber.org/atomic v1.11.0 // indirect
	go.uber.org/multierr v1.11.0 // indirect
	go.uber.org/zap v1.27.0 // indirect
	golang.org/x/crypto v0.24.0 // indirect
	golang.org/x/exp v0.0.0-20240506185415-9bf2ced13842 // indirect
	golang.org/x/net v0.26.0 // indirect
	golang.org/x/sync v0.7.0 // indirect
	golang.org/x/sys v0.21.0 // indirect
	golang.org/x/xerrors v0.0.0-20231012003039-104605ab7028 // indirect
	gonum.org/v1/gonum v0.15.0 // indirect
	google.golang.org/protobuf v1.34.1 // indirect
	lukechampine.com/blake3 v1.3.0 // indirect
)

replace berty.tech/go-ipfs-log => /repo
