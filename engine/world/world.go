// Package world builds deterministic fixtures: identities with fixed keys and
// log constructors over the store double. Every entry CID is a pure function of
// the operation history (fixed keys, RFC 6979 signatures, payloads derived from
// the append counter, fixed log id).
package world

import (
	"context"
	"crypto/sha256"
	"encoding/hex"
	"fmt"
	"sync"

	ipfslog "berty.tech/go-ipfs-log"
	"berty.tech/go-ipfs-log/entry"
	idp "berty.tech/go-ipfs-log/identityprovider"
	"berty.tech/go-ipfs-log/iface"
	"berty.tech/go-ipfs-log/io/cbor"
	coreiface "github.com/ipfs/kubo/core/coreiface"
	"github.com/libp2p/go-libp2p/core/crypto"
)

var Ctx = context.Background()

// StaticKeystore is a keystore.Interface over a fixed, pre-loaded key table. It
// uses no synchronisation (it is read-only after construction), so it adds no
// happens-before edges under the race monitor.
type StaticKeystore struct {
	keys map[string]crypto.PrivKey
}

func (k *StaticKeystore) HasKey(_ context.Context, id string) (bool, error) {
	_, ok := k.keys[id]
	return ok, nil
}
func (k *StaticKeystore) CreateKey(_ context.Context, id string) (crypto.PrivKey, error) {
	return nil, fmt.Errorf("static keystore: no key for %q", id)
}
func (k *StaticKeystore) GetKey(_ context.Context, id string) (crypto.PrivKey, error) {
	p, ok := k.keys[id]
	if !ok {
		return nil, fmt.Errorf("static keystore: no key for %q", id)
	}
	return p, nil
}

// MemoOK, when set and true, lets signing reuse earlier signatures of the same bytes by the
// same key (signing is deterministic, RFC 6979). The scheduler harness enables it only for
// set-up code running in direct mode, never for code under exploration (the cache lock would
// add happens-before edges).
var MemoOK func() bool

type memoKey struct {
	crypto.PrivKey
	mu   sync.Mutex
	sigs map[string][]byte
}

func (m *memoKey) Sign(data []byte) ([]byte, error) {
	if MemoOK == nil || !MemoOK() {
		return m.PrivKey.Sign(data)
	}
	m.mu.Lock()
	if s, ok := m.sigs[string(data)]; ok {
		m.mu.Unlock()
		return append([]byte{}, s...), nil
	}
	m.mu.Unlock()
	s, err := m.PrivKey.Sign(data)
	if err == nil {
		m.mu.Lock()
		m.sigs[string(data)] = append([]byte{}, s...)
		m.mu.Unlock()
	}
	return s, err
}
func (k *StaticKeystore) Sign(p crypto.PrivKey, b []byte) ([]byte, error) { return p.Sign(b) }
func (k *StaticKeystore) Verify(sig []byte, pub crypto.PubKey, data []byte) error {
	ok, err := pub.Verify(data, sig)
	if err != nil {
		return err
	}
	if !ok {
		return fmt.Errorf("signature does not verify")
	}
	return nil
}

// SeedKey derives the fixed private key bytes for a name.
func SeedKey(name string) []byte { s := sha256.Sum256([]byte(name)); return s[:] }

var (
	Keystore *StaticKeystore
	IDs      []*idp.Identity // userA, userB, userC, userD, then the same four on a second device (same id, other public key)
	Names    = []string{"userA", "userB", "userC", "userD"}
)

// Init builds the identities once per process.
func Init() {
	if Keystore != nil {
		return
	}
	ks := &StaticKeystore{keys: map[string]crypto.PrivKey{}}
	for _, n := range Names {
		k0, err := crypto.UnmarshalSecp256k1PrivateKey(SeedKey(n))
		if err != nil {
			panic(err)
		}
		ks.keys[n] = &memoKey{PrivKey: k0, sigs: map[string][]byte{}}
		raw, _ := k0.GetPublic().Raw()
		k1, err := crypto.UnmarshalSecp256k1PrivateKey(SeedKey("signing/" + n))
		if err != nil {
			panic(err)
		}
		ks.keys[hex.EncodeToString(raw)] = &memoKey{PrivKey: k1, sigs: map[string][]byte{}}
	}
	Keystore = ks
	for _, n := range Names {
		id, err := idp.CreateIdentity(Ctx, &idp.CreateIdentityOptions{Keystore: ks, ID: n, Type: "orbitdb"})
		if err != nil {
			panic(err)
		}
		IDs = append(IDs, id)
	}
	// the same users on a second device: the same root key (hence the same identity id) in another keystore, which
	// holds its own signing key (hence another public key). IDs[4+i] is user i's second-device identity.
	ks2 := &StaticKeystore{keys: map[string]crypto.PrivKey{}}
	for _, n := range Names {
		ks2.keys[n] = ks.keys[n]
		raw, _ := ks.keys[n].GetPublic().Raw()
		k2, err := crypto.UnmarshalSecp256k1PrivateKey(SeedKey("signing-on-second-device/" + n))
		if err != nil {
			panic(err)
		}
		ks2.keys[hex.EncodeToString(raw)] = &memoKey{PrivKey: k2, sigs: map[string][]byte{}}
	}
	for _, n := range Names {
		id, err := idp.CreateIdentity(Ctx, &idp.CreateIdentityOptions{Keystore: ks2, ID: n, Type: "orbitdb"})
		if err != nil {
			panic(err)
		}
		IDs = append(IDs, id)
	}
	// force the codec singleton into existence before any concurrency
	if _, err := cbor.IO(&entry.Entry{}, &entry.LamportClock{}); err != nil {
		panic(err)
	}
}

// WriterOf maps a clock id (public key bytes) back to the writer index, -1 if unknown.
func WriterOf(clockID []byte) int {
	for i, id := range IDs {
		if string(id.PublicKey) == string(clockID) {
			return i
		}
	}
	return -1
}

// NewLog makes an empty log for writer w.
func NewLog(st coreiface.CoreAPI, w int, opts *ipfslog.LogOptions) *ipfslog.IPFSLog {
	if opts == nil {
		opts = &ipfslog.LogOptions{}
	}
	if opts.ID == "" {
		opts.ID = "X"
	}
	l, err := ipfslog.NewLog(st, IDs[w], opts)
	if err != nil {
		panic(err)
	}
	return l
}

// Hashes returns the CID strings of the entries of m in m's order.
func Hashes(m iface.IPFSLogOrderedEntries) []string {
	if m == nil {
		return nil
	}
	sl := m.Slice()
	r := make([]string, 0, len(sl))
	for _, e := range sl {
		r = append(r, e.GetHash().String())
	}
	return r
}

// HashesOf returns the CID strings of a slice of entries.
func HashesOf(es []iface.IPFSLogEntry) []string {
	r := make([]string, 0, len(es))
	for _, e := range es {
		r = append(r, e.GetHash().String())
	}
	return r
}

// NewStaticKeystore makes an empty static keystore (for pinned-vector identities).
func NewStaticKeystore() *StaticKeystore { return &StaticKeystore{keys: map[string]crypto.PrivKey{}} }

// Put registers a key under a name.
func (k *StaticKeystore) Put(name string, key crypto.PrivKey) { k.keys[name] = key }
