// instr writes a build overlay for /repo's current working tree: every non-test
// .go file of the module that uses sync, x/sync/semaphore, go statements or
// context.WithTimeout/WithDeadline gets a rewritten copy that routes them to the
// scheduler shim, and the shim itself is added as the virtual package
// berty.tech/go-ipfs-log/zvsync. /repo is not touched.
//
//	instr <repo> <outdir>
package main

import (
	"bytes"
	"encoding/json"
	"fmt"
	"go/ast"
	"go/format"
	"go/parser"
	"go/token"
	"os"
	"os/exec"
	"path/filepath"
	"strconv"
	"strings"
)

const shimPath = "berty.tech/go-ipfs-log/zvsync"
const lruShimPath = "berty.tech/go-ipfs-log/zvlru"
const atomicShimPath = "berty.tech/go-ipfs-log/zvatomic"

// extPkgs are packages outside the module whose own synchronisation matters to the code under test when it uses
// them: their source (as the module graph of the repository resolves it) is rewritten like the repository's own
// files and added as a virtual package of the repository's module; imports of the original are routed there.
var extPkgs = map[string]string{
	"golang.org/x/sync/singleflight": "zvsingleflight",
	"golang.org/x/sync/errgroup":     "zverrgroup",
}

// extDirs: the source directory of each resolved external package
var extDirs = map[string]string{}

func main() {
	if len(os.Args) != 3 {
		fmt.Fprintln(os.Stderr, "usage: instr <repo> <outdir>")
		os.Exit(2)
	}
	repo, out := os.Args[1], os.Args[2]
	if err := os.MkdirAll(out, 0o755); err != nil {
		panic(err)
	}
	replace := map[string]string{}
	n := 0
	for pkg := range extPkgs {
		cmd := exec.Command("go", "list", "-mod=readonly", "-f", "{{.Dir}}", pkg) // never let the tool rewrite go.mod of the tree under test
		cmd.Dir = repo
		if b, err := cmd.Output(); err == nil && strings.TrimSpace(string(b)) != "" {
			extDirs[pkg] = strings.TrimSpace(string(b))
		}
	}
	err := filepath.Walk(repo, func(p string, info os.FileInfo, err error) error {
		if err != nil {
			return err
		}
		rel, _ := filepath.Rel(repo, p)
		if info.IsDir() {
			if rel == "test" || rel == "example" || rel == ".git" || strings.HasPrefix(filepath.Base(p), ".") && rel != "." || rel == "zvsync" || rel == "zvlru" || rel == "zvatomic" || strings.HasPrefix(rel, "zvext") || rel == "zvlitmus" || rel == "zvsingleflight" || rel == "zverrgroup" {
				return filepath.SkipDir
			}
			return nil
		}
		if !strings.HasSuffix(p, ".go") || strings.HasSuffix(p, "_test.go") {
			return nil
		}
		src, err := os.ReadFile(p)
		if err != nil {
			return err
		}
		res, changed, err := rewrite(p, src)
		if err != nil {
			return fmt.Errorf("%s: %w", rel, err)
		}
		if !changed {
			return nil
		}
		dst := filepath.Join(out, strings.ReplaceAll(rel, string(filepath.Separator), "__"))
		if err := os.WriteFile(dst, res, 0o644); err != nil {
			return err
		}
		replace[p] = dst
		n++
		return nil
	})
	if err != nil {
		fmt.Fprintln(os.Stderr, "instr:", err)
		os.Exit(1)
	}
	// the shim as a virtual package of the repository's module
	self, _ := os.Getwd()
	shimDir := filepath.Join(self, "engine", "zvsync")
	ents, err := os.ReadDir(shimDir)
	if err != nil {
		fmt.Fprintln(os.Stderr, "instr:", err)
		os.Exit(1)
	}
	for _, e := range ents {
		if strings.HasSuffix(e.Name(), ".go") && !strings.HasSuffix(e.Name(), "_test.go") {
			replace[filepath.Join(repo, "zvsync", e.Name())] = filepath.Join(shimDir, e.Name())
		}
	}
	replace[filepath.Join(repo, "zvlru", "lru.go")] = filepath.Join(self, "engine", "zvlru", "lru.go")
	replace[filepath.Join(repo, "zvatomic", "atomic.go")] = filepath.Join(self, "engine", "zvatomic", "atomic.go")
	// plain Go that exercises the rewriter itself (engine/zvlitmus): rewritten like everything else
	extPkgs["verif/zvlitmus"] = "zvlitmus"
	extDirs["verif/zvlitmus"] = filepath.Join(self, "engine", "zvlitmus")
	for pkg, dir := range extDirs {
		ents, err := os.ReadDir(dir)
		if err != nil {
			fmt.Fprintln(os.Stderr, "instr:", err)
			os.Exit(1)
		}
		for _, e := range ents {
			if !strings.HasSuffix(e.Name(), ".go") || strings.HasSuffix(e.Name(), "_test.go") {
				continue
			}
			src, err := os.ReadFile(filepath.Join(dir, e.Name()))
			if err != nil {
				fmt.Fprintln(os.Stderr, "instr:", err)
				os.Exit(1)
			}
			res, changed, err := rewrite(e.Name(), src)
			if err != nil {
				fmt.Fprintln(os.Stderr, "instr:", pkg, err)
				os.Exit(1)
			}
			if !changed {
				res = src
			}
			dst := filepath.Join(out, extPkgs[pkg]+"__"+e.Name())
			if err := os.WriteFile(dst, res, 0o644); err != nil {
				panic(err)
			}
			replace[filepath.Join(repo, extPkgs[pkg], e.Name())] = dst
		}
	}
	b, _ := json.MarshalIndent(map[string]interface{}{"Replace": replace}, "", " ")
	if err := os.WriteFile(filepath.Join(out, "overlay.json"), b, 0o644); err != nil {
		panic(err)
	}
	fmt.Printf("instr: %d files rewritten\n", n)
}

func rewrite(name string, src []byte) ([]byte, bool, error) {
	fset := token.NewFileSet()
	f, err := parser.ParseFile(fset, name, src, parser.ParseComments)
	if err != nil {
		return nil, false, err
	}
	changed := false
	syncName, semName, ctxName := "", "", ""
	for _, im := range f.Imports {
		path, _ := strconv.Unquote(im.Path.Value)
		local := ""
		if im.Name != nil {
			local = im.Name.Name
		}
		switch path {
		case "sync":
			if local == "" {
				local = "sync"
			}
			syncName = local
			im.Path.Value = strconv.Quote(shimPath)
			im.Name = ast.NewIdent(local)
			changed = true
		case "golang.org/x/sync/semaphore":
			if local == "" {
				local = "semaphore"
			}
			semName = local
			im.Path.Value = strconv.Quote(shimPath)
			im.Name = ast.NewIdent(local)
			changed = true
		case "sync/atomic":
			// the atomics shim: the real operations with scheduling points (engine/zvatomic)
			if local == "" {
				local = "atomic"
			}
			im.Path.Value = strconv.Quote(atomicShimPath)
			im.Name = ast.NewIdent(local)
			changed = true
		case "github.com/hashicorp/golang-lru":
			// the LRU cache shim: the real cache with scheduling points (engine/zvlru)
			if local == "" {
				local = "lru"
			}
			im.Path.Value = strconv.Quote(lruShimPath)
			im.Name = ast.NewIdent(local)
			changed = true
		case "context":
			if local == "" {
				local = "context"
			}
			ctxName = local
		default:
			if _, ok := extDirs[path]; ok {
				if local == "" {
					local = path[strings.LastIndex(path, "/")+1:]
				}
				im.Path.Value = strconv.Quote("berty.tech/go-ipfs-log/" + extPkgs[path])
				im.Name = ast.NewIdent(local)
				changed = true
			}
		}
	}
	_ = semName
	needShim := false
	shimIdent := "zvsyncshim"
	// go statements and context.WithTimeout / WithDeadline
	ast.Inspect(f, func(n ast.Node) bool {
		switch x := n.(type) {
		case *ast.CallExpr:
			if sel, ok := x.Fun.(*ast.SelectorExpr); ok && ctxName != "" {
				if id, ok := sel.X.(*ast.Ident); ok && id.Name == ctxName && id.Obj == nil && (sel.Sel.Name == "WithTimeout" || sel.Sel.Name == "WithDeadline") {
					id.Name = shimIdent
					needShim = true
					changed = true
				}
			}
		}
		return true
	})
	rewriteRecv(f, shimIdent, &needShim, &changed)
	rewriteGo(f, shimIdent, &needShim, &changed)
	if !changed {
		return nil, false, nil
	}
	if needShim {
		// add the import (a second import of the same path under another name is legal)
		spec := &ast.ImportSpec{Name: ast.NewIdent(shimIdent), Path: &ast.BasicLit{Kind: token.STRING, Value: strconv.Quote(shimPath)}}
		added := false
		for _, d := range f.Decls {
			if gd, ok := d.(*ast.GenDecl); ok && gd.Tok == token.IMPORT {
				gd.Specs = append(gd.Specs, spec)
				if !gd.Lparen.IsValid() {
					gd.Lparen = gd.Pos()
					gd.Rparen = gd.End()
				}
				added = true
				break
			}
		}
		if !added {
			f.Decls = append([]ast.Decl{&ast.GenDecl{Tok: token.IMPORT, Specs: []ast.Spec{spec}}}, f.Decls...)
		}
		f.Imports = append(f.Imports, spec)
	}
	_ = syncName
	// comments inside function bodies lose their anchor when statements are rebuilt: drop them
	// (doc comments, build constraints and //go: directives outside bodies are kept)
	var keep []*ast.CommentGroup
	for _, cg := range f.Comments {
		inside := false
		for _, d := range f.Decls {
			if fd, ok := d.(*ast.FuncDecl); ok && fd.Body != nil && cg.Pos() > fd.Body.Lbrace && cg.End() < fd.Body.Rbrace {
				inside = true
			}
		}
		if !inside {
			keep = append(keep, cg)
		}
	}
	f.Comments = keep
	var buf bytes.Buffer
	if err := format.Node(&buf, fset, f); err != nil {
		return nil, false, err
	}
	return buf.Bytes(), true, nil
}

// rewriteRecv turns channel receives that are not select cases into calls of the shim's polling receive:
// `<-ch` in an expression position becomes shim.Recv1(ch), `v, ok := <-ch` / `v, ok = <-ch` becomes shim.Recv(ch).
// (`for range ch` cannot be told from ranging over a slice without type information and is left alone.)
func rewriteRecv(f *ast.File, shim string, needShim, changed *bool) {
	call := func(name string, ch ast.Expr) ast.Expr {
		*needShim = true
		*changed = true
		return &ast.CallExpr{Fun: &ast.SelectorExpr{X: ast.NewIdent(shim), Sel: ast.NewIdent(name)}, Args: []ast.Expr{ch}}
	}
	isRecv := func(e ast.Expr) (ast.Expr, bool) {
		for {
			p, ok := e.(*ast.ParenExpr)
			if !ok {
				break
			}
			e = p.X
		}
		if u, ok := e.(*ast.UnaryExpr); ok && u.Op == token.ARROW {
			return u.X, true
		}
		return nil, false
	}
	one := func(slot *ast.Expr) {
		if *slot == nil {
			return
		}
		if ch, ok := isRecv(*slot); ok {
			*slot = call("Recv1", ch)
		}
	}
	var visit func(n ast.Node)
	visit = func(n ast.Node) {
		ast.Inspect(n, func(x ast.Node) bool {
			switch v := x.(type) {
			case *ast.CommClause:
				// the communication of a select case stays a communication; its body is ordinary code
				for _, st := range v.Body {
					visit(st)
				}
				return false
			case *ast.AssignStmt:
				if len(v.Rhs) == 1 && len(v.Lhs) == 2 {
					if ch, ok := isRecv(v.Rhs[0]); ok {
						v.Rhs[0] = call("Recv", ch)
						return true
					}
				}
				for i := range v.Rhs {
					one(&v.Rhs[i])
				}
			case *ast.ValueSpec:
				if len(v.Values) == 1 && len(v.Names) == 2 {
					if ch, ok := isRecv(v.Values[0]); ok {
						v.Values[0] = call("Recv", ch)
						return true
					}
				}
				for i := range v.Values {
					one(&v.Values[i])
				}
			case *ast.ExprStmt:
				one(&v.X)
			case *ast.ReturnStmt:
				for i := range v.Results {
					one(&v.Results[i])
				}
			case *ast.CallExpr:
				for i := range v.Args {
					one(&v.Args[i])
				}
			case *ast.BinaryExpr:
				one(&v.X)
				one(&v.Y)
			case *ast.IfStmt:
				one(&v.Cond)
			case *ast.SwitchStmt:
				one(&v.Tag)
			case *ast.SendStmt:
				one(&v.Value)
			case *ast.KeyValueExpr:
				one(&v.Value)
			case *ast.CompositeLit:
				for i := range v.Elts {
					one(&v.Elts[i])
				}
			case *ast.IndexExpr:
				one(&v.Index)
			case *ast.UnaryExpr:
				if v.Op != token.ARROW {
					one(&v.X)
				}
			case *ast.StarExpr:
				one(&v.X)
			}
			return true
		})
	}
	for _, d := range f.Decls {
		visit(d)
	}
}

// rewriteGo turns `go f(a, b)` into `{ a0, b0 := a, b; shim.Go(func() { f(a0, b0) }) }`
// (arguments are still evaluated at spawn time; a function literal callee is kept as is).
func rewriteGo(f *ast.File, shim string, needShim, changed *bool) {
	var walkBlock func(list []ast.Stmt) []ast.Stmt
	counter := 0
	var visit func(n ast.Node)
	mk := func(g *ast.GoStmt) ast.Stmt {
		call := g.Call
		var names []ast.Expr
		var vals []ast.Expr
		newArgs := make([]ast.Expr, len(call.Args))
		for i, a := range call.Args {
			counter++
			id := ast.NewIdent(fmt.Sprintf("zvarg%d", counter))
			names = append(names, id)
			vals = append(vals, a)
			newArgs[i] = ast.NewIdent(id.Name)
		}
		fun := call.Fun
		// a method value / function expression must also be evaluated at spawn time
		builtin := false
		if bi, ok := fun.(*ast.Ident); ok && bi.Obj == nil {
			switch bi.Name {
			case "panic", "print", "println", "close", "delete", "copy", "recover", "clear":
				builtin = true // a builtin is not a value: `go panic(e)` keeps its callee
			}
		}
		if _, isLit := fun.(*ast.FuncLit); builtin {
		} else if !isLit {
			counter++
			id := ast.NewIdent(fmt.Sprintf("zvfn%d", counter))
			names = append(names, id)
			vals = append(vals, fun)
			fun = ast.NewIdent(id.Name)
		} else {
			visit(fun)
		}
		inner := &ast.CallExpr{Fun: fun, Args: newArgs, Ellipsis: call.Ellipsis}
		if call.Ellipsis.IsValid() {
			inner.Ellipsis = 1
		}
		body := &ast.BlockStmt{List: []ast.Stmt{&ast.ExprStmt{X: inner}}}
		spawn := &ast.ExprStmt{X: &ast.CallExpr{
			Fun:  &ast.SelectorExpr{X: ast.NewIdent(shim), Sel: ast.NewIdent("Go")},
			Args: []ast.Expr{&ast.FuncLit{Type: &ast.FuncType{Params: &ast.FieldList{}}, Body: body}},
		}}
		*needShim = true
		*changed = true
		if len(names) == 0 {
			return spawn
		}
		return &ast.BlockStmt{List: []ast.Stmt{&ast.AssignStmt{Lhs: names, Tok: token.DEFINE, Rhs: vals}, spawn}}
	}
	// mkSend turns the statement `ch <- v` into
	//   { c, x := ch, v; if !shim.Controlled() { c <- x } else { for d := false; !d; { select { case c <- x: d = true; shim.ChanDone(); default: shim.ChanYield() } } } }
	// a blocked send becomes a visible wait (a polling loop that yields to the scheduler) instead of an OS-level block
	// the scheduler cannot see. Sends inside a select's case are left alone.
	mkSend := func(snd *ast.SendStmt) ast.Stmt {
		counter++
		c, x, d := ast.NewIdent(fmt.Sprintf("zvch%d", counter)), ast.NewIdent(fmt.Sprintf("zvval%d", counter)), ast.NewIdent(fmt.Sprintf("zvdone%d", counter))
		id := func(i *ast.Ident) *ast.Ident { return ast.NewIdent(i.Name) }
		call := func(name string) *ast.CallExpr {
			return &ast.CallExpr{Fun: &ast.SelectorExpr{X: ast.NewIdent(shim), Sel: ast.NewIdent(name)}}
		}
		sel := &ast.SelectStmt{Body: &ast.BlockStmt{List: []ast.Stmt{
			&ast.CommClause{Comm: &ast.SendStmt{Chan: id(c), Value: id(x)}, Body: []ast.Stmt{&ast.AssignStmt{Lhs: []ast.Expr{id(d)}, Tok: token.ASSIGN, Rhs: []ast.Expr{ast.NewIdent("true")}}, &ast.ExprStmt{X: call("ChanDone")}}},
			&ast.CommClause{Comm: nil, Body: []ast.Stmt{&ast.ExprStmt{X: call("ChanYield")}}},
		}}}
		loop := &ast.ForStmt{
			Init: &ast.AssignStmt{Lhs: []ast.Expr{id(d)}, Tok: token.DEFINE, Rhs: []ast.Expr{ast.NewIdent("false")}},
			Cond: &ast.UnaryExpr{Op: token.NOT, X: id(d)},
			Body: &ast.BlockStmt{List: []ast.Stmt{sel}},
		}
		*needShim = true
		*changed = true
		// The value is evaluated once into a temporary only if evaluating it can have an effect (a call, a receive, a
		// function literal); otherwise it stays where it is: a temporary would give an untyped constant or nil a
		// default type (or none) that the channel's element type need not accept.
		effect := false
		ast.Inspect(snd.Value, func(n ast.Node) bool {
			switch u := n.(type) {
			case *ast.CallExpr, *ast.FuncLit:
				effect = true
			case *ast.UnaryExpr:
				if u.Op == token.ARROW {
					effect = true
				}
			}
			return !effect
		})
		if !effect {
			sel.Body.List[0].(*ast.CommClause).Comm = &ast.SendStmt{Chan: id(c), Value: snd.Value}
			return &ast.BlockStmt{List: []ast.Stmt{
				&ast.AssignStmt{Lhs: []ast.Expr{id(c)}, Tok: token.DEFINE, Rhs: []ast.Expr{snd.Chan}},
				&ast.IfStmt{
					Cond: &ast.UnaryExpr{Op: token.NOT, X: call("Controlled")},
					Body: &ast.BlockStmt{List: []ast.Stmt{&ast.SendStmt{Chan: id(c), Value: snd.Value}}},
					Else: &ast.BlockStmt{List: []ast.Stmt{loop}},
				},
			}}
		}
		return &ast.BlockStmt{List: []ast.Stmt{
			&ast.AssignStmt{Lhs: []ast.Expr{id(c), id(x)}, Tok: token.DEFINE, Rhs: []ast.Expr{snd.Chan, snd.Value}},
			&ast.IfStmt{
				Cond: &ast.UnaryExpr{Op: token.NOT, X: call("Controlled")},
				Body: &ast.BlockStmt{List: []ast.Stmt{&ast.SendStmt{Chan: id(c), Value: id(x)}}},
				Else: &ast.BlockStmt{List: []ast.Stmt{loop}},
			},
		}}
	}
	// mkSelect turns a select without a default case into
	//   for d := false; !d; { d = true; select { case A: shim.ChanDone(); body; default: select { case B: ...; default: d = false; shim.ChanYield() } } }
	// a blocked select becomes a visible wait, like a blocked send. `break` in a case body still leaves the select
	// (and then the loop, d being true); a select whose case bodies hold an unlabelled `continue` of an enclosing loop
	// is left alone (the continue would bind to the new loop).
	mkSelect := func(sel *ast.SelectStmt) ast.Stmt {
		counter++
		d := fmt.Sprintf("zvsel%d", counter)
		call := func(name string) ast.Stmt {
			return &ast.ExprStmt{X: &ast.CallExpr{Fun: &ast.SelectorExpr{X: ast.NewIdent(shim), Sel: ast.NewIdent(name)}}}
		}
		// a select whose every case ends in a return (or panic) and holds no break is a terminating statement; the
		// loop that replaces it is not, so an (unreachable) panic follows it to keep "missing return" away
		terminating := true
		for _, c := range sel.Body.List {
			cc := c.(*ast.CommClause)
			last := false
			if len(cc.Body) > 0 {
				switch l := cc.Body[len(cc.Body)-1].(type) {
				case *ast.ReturnStmt:
					last = true
				case *ast.ExprStmt:
					if ce, ok := l.X.(*ast.CallExpr); ok {
						if fn, ok := ce.Fun.(*ast.Ident); ok && fn.Name == "panic" {
							last = true
						}
					}
				}
			}
			for _, st := range cc.Body {
				ast.Inspect(st, func(n ast.Node) bool {
					if b, ok := n.(*ast.BranchStmt); ok && b.Tok == token.BREAK {
						last = false
					}
					return true
				})
			}
			terminating = terminating && last
		}
		for _, c := range sel.Body.List {
			cc := c.(*ast.CommClause)
			cc.Body = append([]ast.Stmt{call("ChanDone")}, cc.Body...)
		}
		// one non-blocking select per case, nested in source order: Go picks among several ready cases at random,
		// which would be nondeterminism the scheduler does not own; taking the first ready case in source order is one
		// of the behaviours select allows (an under-approximation where several cases are ready at the same poll)
		cases := sel.Body.List
		var inner ast.Stmt
		for i := len(cases) - 1; i >= 0; i-- {
			def := &ast.CommClause{}
			if inner == nil {
				def.Body = []ast.Stmt{
					&ast.AssignStmt{Lhs: []ast.Expr{ast.NewIdent(d)}, Tok: token.ASSIGN, Rhs: []ast.Expr{ast.NewIdent("false")}},
					call("ChanYield"),
				}
			} else {
				def.Body = []ast.Stmt{inner}
			}
			inner = &ast.SelectStmt{Body: &ast.BlockStmt{List: []ast.Stmt{cases[i], def}}}
		}
		sel = inner.(*ast.SelectStmt)
		*needShim = true
		*changed = true
		loop := &ast.ForStmt{
			Init: &ast.AssignStmt{Lhs: []ast.Expr{ast.NewIdent(d)}, Tok: token.DEFINE, Rhs: []ast.Expr{ast.NewIdent("false")}},
			Cond: &ast.UnaryExpr{Op: token.NOT, X: ast.NewIdent(d)},
			Body: &ast.BlockStmt{List: []ast.Stmt{
				&ast.AssignStmt{Lhs: []ast.Expr{ast.NewIdent(d)}, Tok: token.ASSIGN, Rhs: []ast.Expr{ast.NewIdent("true")}},
				sel,
			}},
		}
		if terminating {
			return &ast.BlockStmt{List: []ast.Stmt{loop, &ast.ExprStmt{X: &ast.CallExpr{Fun: ast.NewIdent("panic"), Args: []ast.Expr{&ast.BasicLit{Kind: token.STRING, Value: strconv.Quote("zvsync: past a terminating select")}}}}}}
		}
		return loop
	}
	blockingSelect := func(sel *ast.SelectStmt) bool {
		if len(sel.Body.List) == 0 {
			return false // select {} blocks forever by intent
		}
		ok := true
		for _, c := range sel.Body.List {
			cc := c.(*ast.CommClause)
			if cc.Comm == nil {
				return false
			}
			for _, st := range cc.Body {
				ast.Inspect(st, func(n ast.Node) bool {
					switch b := n.(type) {
					case *ast.ForStmt, *ast.RangeStmt, *ast.FuncLit:
						return false
					case *ast.BranchStmt:
						if b.Tok == token.CONTINUE && b.Label == nil {
							ok = false
						}
					}
					return true
				})
			}
		}
		return ok
	}
	walkBlock = func(list []ast.Stmt) []ast.Stmt {
		for i, st := range list {
			if g, ok := st.(*ast.GoStmt); ok {
				list[i] = mk(g)
			} else if sel, ok := st.(*ast.SelectStmt); ok && blockingSelect(sel) {
				visit(sel)
				list[i] = mkSelect(sel)
			} else if snd, ok := st.(*ast.SendStmt); ok {
				visit(snd.Value)
				list[i] = mkSend(snd)
			} else {
				visit(st)
			}
		}
		return list
	}
	visit = func(n ast.Node) {
		ast.Inspect(n, func(x ast.Node) bool {
			switch b := x.(type) {
			case *ast.BlockStmt:
				b.List = walkBlock(b.List)
				return false
			case *ast.CaseClause:
				for _, e := range b.List {
					visit(e)
				}
				b.Body = walkBlock(b.Body)
				return false
			case *ast.CommClause:
				if b.Comm != nil {
					visit(b.Comm)
				}
				b.Body = walkBlock(b.Body)
				return false
			case *ast.LabeledStmt:
				if g, ok := b.Stmt.(*ast.GoStmt); ok {
					b.Stmt = mk(g)
					return false
				}
			}
			return true
		})
	}
	for _, d := range f.Decls {
		visit(d)
	}
}
