//go:build !race

package zvsync

import "unsafe"

const RaceEnabled = false

func raceDisable()                      {}
func raceEnable()                       {}
func raceAcquire(p unsafe.Pointer)      {}
func raceRelease(p unsafe.Pointer)      {}
func raceReleaseMerge(p unsafe.Pointer) {}
