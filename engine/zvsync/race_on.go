//go:build race

package zvsync

import (
	"runtime"
	"unsafe"
)

const RaceEnabled = true

func raceDisable()                      { runtime.RaceDisable() }
func raceEnable()                       { runtime.RaceEnable() }
func raceAcquire(p unsafe.Pointer)      { runtime.RaceAcquire(p) }
func raceRelease(p unsafe.Pointer)      { runtime.RaceRelease(p) }
func raceReleaseMerge(p unsafe.Pointer) { runtime.RaceReleaseMerge(p) }
