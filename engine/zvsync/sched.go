// Package zvsync is the scheduler shim. Through the build overlay it becomes the
// virtual package berty.tech/go-ipfs-log/zvsync, and the rewritten copies of the
// repository's files import it in place of "sync" and
// "golang.org/x/sync/semaphore" (and call Go / WithTimeout instead of the go
// statement / context.WithTimeout).
//
// Two modes. Direct mode (no exploration running): every type delegates to the
// real primitive it embeds, so set-up code behaves exactly as in production.
// Controlled mode (inside Run): virtual threads are goroutines parked on
// private channels; a controller resumes exactly one at a time and every
// blocking synchronisation operation is a scheduling point.
package zvsync

import (
	"context"
	"fmt"
	"runtime"
	"runtime/debug"
	"sort"
	"strings"
	realsync "sync"
	"time"
	"unsafe"
)

type Locker = realsync.Locker
type Once = realsync.Once
type Map = realsync.Map

func OnceFunc(f func()) func() { return realsync.OnceFunc(f) }

type opKind int

const (
	opStart opKind = iota
	opAccess
	opLock
	opRLock
	opWAnnounce
	opWAcquire
	opWGWait
	opCondWait
	opCondWake
	opSemAcq
	opWaitCtx
	opTimer
	opTryLock // try operations never block but are scheduling points (another thread may get in first)
	opTryRLock
	opTrySem
	// non-point requests
	opUnlock
	opWUnlock
	opRUnlock
	opWGAdd
	opSemRel
	opSpawn
	opSignal
	opBroadcast
	opTimerStop
	opExit
	opYield
)

var opNames = map[opKind]string{opStart: "start", opAccess: "access", opLock: "lock", opRLock: "rlock", opWAnnounce: "wlock-announce",
	opWAcquire: "wlock-acquire", opWGWait: "wg-wait", opCondWait: "cond-wait", opCondWake: "cond-wake", opSemAcq: "sem-acquire",
	opWaitCtx: "wait-cancel", opTimer: "timer-fire", opTryLock: "trylock", opTryRLock: "tryrlock", opTrySem: "sem-tryacquire", opExit: "exit", opYield: "poll (blocked channel operation)"}

type req struct {
	t     *thread
	op    opKind
	obj   unsafe.Pointer
	obj2  unsafe.Pointer
	n     int
	size  int
	label string
	write bool
	vc    *vctx
	rw    bool
	timer *thread
	dur   time.Duration
}

type thread struct {
	id        int
	h         uint64 // happens-before history hash
	wake      chan struct{}
	pend      req
	done      bool
	timer     bool
	dur       time.Duration // a timer thread's duration: a longer timer never fires while a shorter one is armed
	relock    bool
	signalled bool
	granted   bool
	spawned   *thread
	panicked  bool
	polled    int  // when this thread last retried a blocked channel operation
	stale     bool // it has retried since anything else happened
}

type objState struct {
	id       int
	name     uint64
	named    bool
	rel      uint64 // release hash (total chain)
	racc     uint64 // commutative accumulation of reader releases / Done
	held     *thread
	wpending *thread
	readers  int
	count    int // waitgroup counter / semaphore in use
	size     int // semaphore capacity
	waiters  []*thread
}

// Point is one scheduling decision.
type Point struct {
	KeyBefore      uint64
	Enabled        []int // thread ids in canonical order: running thread first if enabled, then ascending ids, timer threads last
	Chosen         int   // index into Enabled
	RunningEnabled bool
	Op             string // what the chosen thread performs
	// RunningFocus: the operation the running thread is about to perform is on a focused object (or no
	// focus is set). Explorers that restrict preemptions to focused objects branch only where this is true.
	RunningFocus bool
}

// ThreadPanic records a panic on a virtual thread (in production: process death if it is a library goroutine).
type ThreadPanic struct {
	Thread int
	Value  string
	Stack  string
}

type Result struct {
	Points         []Point
	Deadlock       bool
	Horizon        bool
	Uncontrollable string // non-empty: a thread blocked on something the shim does not control
	Blocked        []string
	Trace          []string
	Panics         []ThreadPanic
	FinalKey       uint64
	TimerEarly     bool // a virtual timer fired although another thread could still run
	TimerFired     bool
	TimerDurs      []time.Duration // durations of the virtual timers that fired, in firing order
	TimerQuiescent []time.Duration // of those, the ones that fired when no other thread could run (something was waiting for them)
}

// Choices returns the chosen indices of the execution.
func (r *Result) Choices() []int {
	c := make([]int, len(r.Points))
	for i, p := range r.Points {
		c[i] = p.Chosen
	}
	return c
}

type sched struct {
	ctl      chan req
	threads  []*thread
	objs     map[unsafe.Pointer]*objState
	vers     map[uint64]uint64
	cur      *thread
	prefix   []int
	res      *Result
	trace    bool
	horizon  int
	steps    int
	pollTick int
}

var active *sched
var endToken uint64

// focus, when non-nil, is the set of synchronisation objects at which an explorer may place
// preemptions (switches at blocking points are always explored). It does not change what Run does.
var focus map[unsafe.Pointer]bool

// SetFocus installs the focus set for the following Run calls (nil: every object).
func SetFocus(ptrs []unsafe.Pointer) {
	if ptrs == nil {
		focus = nil
		return
	}
	focus = map[unsafe.Pointer]bool{}
	for _, p := range ptrs {
		focus[p] = true
	}
}

// Horizon is the maximal number of scheduling points per execution.
var Horizon = 20000

// StepTimeout is the real-time watchdog for one step of a virtual thread.
var StepTimeout = 20 * time.Second

//go:norace
func current() *thread {
	if active == nil {
		return nil
	}
	return active.cur
}

// Controlled reports whether the calling code runs under the controller.
func Controlled() bool { return current() != nil }

// Now is a logical timestamp (number of scheduling points so far) for call/return histories.
//
//go:norace
func Now() int {
	if active == nil {
		return 0
	}
	return len(active.res.Points)
}

// ThreadID of the calling virtual thread (-1 in direct mode).
//
//go:norace
func ThreadID() int {
	if t := current(); t != nil {
		return t.id
	}
	return -1
}

//go:norace
func call(r req) {
	t := current()
	r.t = t
	raceDisable()
	active.ctl <- r
	<-t.wake
	raceEnable()
}

func (s *sched) obj(p unsafe.Pointer) *objState {
	o := s.objs[p]
	if o == nil {
		o = &objState{id: len(s.objs)}
		s.objs[p] = o
	}
	return o
}

func invariant(ok bool, msg string) {
	if !ok {
		panic("zvsync: model invariant violated (harness error): " + msg)
	}
}

func (s *sched) enabled(t *thread) bool {
	r := &t.pend
	switch r.op {
	case opStart, opAccess, opCondWait, opTryLock, opTryRLock, opTrySem:
		return true
	case opTimer:
		// virtual time: the computation itself takes no time, so timers fire in the order of their
		// durations; one with a strictly shorter duration that is still armed fires (or is stopped) first
		for _, o := range s.threads {
			if o != t && o.timer && !o.done && o.pend.op == opTimer && o.dur < t.dur {
				return false
			}
		}
		return true
	case opLock:
		return s.obj(r.obj).held == nil
	case opRLock:
		o := s.obj(r.obj)
		return o.held == nil && o.wpending == nil
	case opWAnnounce:
		o := s.obj(r.obj)
		return o.held == nil && o.wpending == nil
	case opWAcquire:
		return s.obj(r.obj).readers == 0
	case opWGWait:
		return s.obj(r.obj).count == 0
	case opCondWake:
		return t.signalled
	case opSemAcq:
		o := s.obj(r.obj)
		o.size = r.size
		return o.count+r.n <= o.size || isDone(r.vc)
	case opWaitCtx:
		return isDone(r.vc)
	}
	return true
}

func (s *sched) nm(o *objState, t *thread) uint64 {
	if !o.named {
		o.named = true
		o.name = mix(t.h, 18)
	}
	return o.name
}

// perform applies the effect of t's pending point operation.
func (s *sched) clearStale() {
	for _, o := range s.threads {
		o.stale = false
	}
}

func (s *sched) perform(t *thread) {
	r := &t.pend
	if r.op != opYield {
		s.clearStale()
	}
	switch r.op {
	case opStart:
		t.h = mix(t.h, 21)
	case opAccess:
		k := strHash(r.label)
		t.h = mix(t.h, 1, k, s.vers[k])
		if r.write {
			s.vers[k] = mix(t.h)
		}
	case opYield:
		// a retry that fails changes nothing: the state key stays what it was
		s.pollTick++
		t.polled = s.pollTick
		t.stale = true
	case opTimer:
		t.h = mix(t.h, 22)
	case opWaitCtx:
		t.h = mix(t.h, 23)
	case opCondWait:
		o, l := s.obj(r.obj), s.obj(r.obj2)
		invariant(l.held == t, "Cond.Wait by a thread that does not hold the lock")
		t.h = mix(t.h, 13, s.nm(o, t), o.rel)
		o.rel = mix(t.h)
		l.rel = mix(t.h, 3)
		l.racc = 0
		l.held = nil
		o.waiters = append(o.waiters, t)
		t.signalled = false
	case opCondWake:
		o := s.obj(r.obj)
		t.h = mix(t.h, 14, s.nm(o, t), o.rel)
	case opWGWait:
		o := s.obj(r.obj)
		invariant(o.count == 0, "WaitGroup.Wait resumed with a non-zero counter")
		t.h = mix(t.h, 11, s.nm(o, t), o.racc)
	case opLock:
		o := s.obj(r.obj)
		invariant(o.held == nil, "Mutex granted while held")
		t.h = mix(t.h, 2, s.nm(o, t), o.rel, o.racc)
		o.held = t
	case opRLock:
		o := s.obj(r.obj)
		invariant(o.held == nil && o.wpending == nil, "RLock granted against a writer")
		t.h = mix(t.h, 5, s.nm(o, t), o.rel)
		o.readers++
	case opWAnnounce:
		o := s.obj(r.obj)
		invariant(o.held == nil && o.wpending == nil, "two writers announced")
		t.h = mix(t.h, 8, s.nm(o, t))
		o.wpending = t
	case opWAcquire:
		o := s.obj(r.obj)
		invariant(o.readers == 0 && o.held == nil && o.wpending == t, "writer granted against readers or another writer")
		t.h = mix(t.h, 2, s.nm(o, t), o.rel, o.racc)
		o.wpending = nil
		o.held = t
	case opTryLock:
		o := s.obj(r.obj)
		t.granted = o.held == nil && o.wpending == nil && o.readers == 0
		t.h = mix(t.h, 26, s.nm(o, t), o.rel, o.racc)
		if t.granted {
			o.held = t
		}
	case opTryRLock:
		o := s.obj(r.obj)
		t.granted = o.held == nil && o.wpending == nil
		t.h = mix(t.h, 27, s.nm(o, t), o.rel)
		if t.granted {
			o.readers++
		}
	case opTrySem:
		o := s.obj(r.obj)
		o.size = r.size
		t.granted = o.count+r.n <= o.size
		t.h = mix(t.h, 28, s.nm(o, t), o.rel, uint64(r.n))
		o.rel = mix(t.h)
		if t.granted {
			o.count += r.n
		}
	case opSemAcq:
		o := s.obj(r.obj)
		t.h = mix(t.h, 12, s.nm(o, t), o.rel, uint64(r.n))
		o.rel = mix(t.h)
		if isDone(r.vc) {
			t.granted = false // a done context wins even if a slot is free (x/sync v0.7.0)
		} else {
			invariant(o.count+r.n <= o.size, "semaphore over capacity")
			o.count += r.n
			t.granted = true
		}
	}
}

func (s *sched) describe(t *thread) string {
	lbl := opNames[t.pend.op]
	if t.pend.obj != nil {
		lbl += fmt.Sprintf("#%d", s.obj(t.pend.obj).id)
	}
	if t.pend.label != "" {
		lbl += "(" + t.pend.label + ")"
	}
	return fmt.Sprintf("T%d:%s", t.id, lbl)
}

func (s *sched) holders() string {
	var parts []string
	type kv struct {
		id int
		s  string
	}
	var l []kv
	for _, o := range s.objs {
		if o.held != nil || o.readers > 0 || o.wpending != nil || len(o.waiters) > 0 {
			h := ""
			if o.held != nil {
				h += fmt.Sprintf(" held-by=T%d", o.held.id)
			}
			if o.wpending != nil {
				h += fmt.Sprintf(" writer-waiting=T%d", o.wpending.id)
			}
			if o.readers > 0 {
				h += fmt.Sprintf(" readers=%d", o.readers)
			}
			if len(o.waiters) > 0 {
				h += fmt.Sprintf(" cond-waiters=%d", len(o.waiters))
			}
			l = append(l, kv{o.id, fmt.Sprintf("obj#%d:%s", o.id, h)})
		}
	}
	sort.Slice(l, func(i, j int) bool { return l[i].id < l[j].id })
	for _, x := range l {
		parts = append(parts, x.s)
	}
	return strings.Join(parts, "; ")
}

// loop is the controller; it runs on the goroutine that called Run.
//
//go:norace
func (s *sched) loop() {
	raceDisable()
	defer raceEnable()
	var running *thread
	watchdog := time.NewTimer(StepTimeout)
	defer watchdog.Stop()
	for {
		var en []int
		runningEnabled := false
		if running != nil && !running.done && !running.timer && running.pend.op != opYield && s.enabled(running) {
			en = append(en, running.id)
			runningEnabled = true
		}
		for _, t := range s.threads {
			if t.done || t == running || t.timer || t.pend.op == opYield {
				continue
			}
			if s.enabled(t) {
				en = append(en, t.id)
			}
		}
		// Threads polling a blocked channel operation. A poller that has retried since anything else last happened
		// ("stale") is not offered again: its retry would find the channel as it left it. Fresh pollers come after
		// the threads that can make progress, least recently polled first. When nothing but stale pollers is left,
		// nobody will ever move: an armed timer fires, otherwise it is a deadlock.
		if takeChanProgress() {
			s.clearStale()
			if s.cur != nil {
				s.cur.h = mix(s.cur.h, 31)
			}
		}
		var ps []*thread
		for _, t := range s.threads {
			if !t.done && !t.timer && t.pend.op == opYield && !t.stale {
				ps = append(ps, t)
			}
		}
		sort.SliceStable(ps, func(i, j int) bool { return ps[i].polled < ps[j].polled })
		for _, t := range ps {
			en = append(en, t.id)
		}
		for _, t := range s.threads { // timers last: the default schedule fires them only when nothing else can run
			if !t.done && t.timer && s.enabled(t) {
				en = append(en, t.id)
			}
		}
		if len(en) == 0 {
			alive := false
			for _, t := range s.threads {
				if !t.done {
					alive = true
					s.res.Blocked = append(s.res.Blocked, s.describe(t))
				}
			}
			if alive {
				s.res.Deadlock = true
				s.res.Blocked = append(s.res.Blocked, "locks: "+s.holders())
			}
			s.res.FinalKey = s.key()
			return
		}
		if len(s.res.Points) >= s.horizon {
			s.res.Horizon = true
			return
		}
		choice := 0
		if len(s.res.Points) < len(s.prefix) {
			choice = s.prefix[len(s.res.Points)]
			if choice >= len(en) {
				panic(fmt.Sprintf("zvsync: replay divergence (harness error): choice %d at point %d but only %d threads enabled", choice, len(s.res.Points), len(en)))
			}
		}
		next := s.threads[en[choice]]
		if next.timer {
			s.res.TimerFired = true
			s.res.TimerDurs = append(s.res.TimerDurs, next.dur)
			early := false
			for _, id := range en {
				if !s.threads[id].timer {
					early = true
				}
			}
			if early {
				s.res.TimerEarly = true
			} else {
				s.res.TimerQuiescent = append(s.res.TimerQuiescent, next.dur)
			}
		}
		rf := true
		if focus != nil && runningEnabled {
			switch running.pend.op {
			case opLock, opRLock, opWAnnounce, opWAcquire, opTryLock, opTryRLock:
				rf = focus[running.pend.obj]
			}
		}
		s.res.Points = append(s.res.Points, Point{KeyBefore: s.key(), Enabled: en, Chosen: choice, RunningEnabled: runningEnabled, Op: opNames[next.pend.op], RunningFocus: rf})
		if s.trace {
			s.res.Trace = append(s.res.Trace, s.describe(next))
		}
		s.perform(next)
		running = next
		s.cur = next
		// multi-step operations that keep the thread parked
		switch next.pend.op {
		case opCondWait:
			next.pend.op = opCondWake
			continue
		case opCondWake:
			next.pend.obj = next.pend.obj2
			if next.pend.rw {
				next.pend.op = opWAnnounce
				next.relock = true
			} else {
				next.pend.op = opLock
			}
			continue
		case opWAnnounce:
			if next.relock {
				next.pend.op = opWAcquire
				continue
			}
		case opWAcquire:
			next.relock = false
		}
		next.wake <- struct{}{}
		// serve non-point requests until the thread reaches its next scheduling point
	serve:
		for {
			if !watchdog.Stop() {
				select {
				case <-watchdog.C:
				default:
				}
			}
			watchdog.Reset(StepTimeout)
			var r req
			select {
			case r = <-s.ctl:
			case <-watchdog.C:
				s.res.Uncontrollable = fmt.Sprintf("T%d did not reach a scheduling point within %v (blocked on a primitive the shim does not intercept?)", running.id, StepTimeout)
				return
			}
			t := r.t
			switch r.op {
			case opUnlock, opWUnlock:
				o := s.obj(r.obj)
				invariant(o.held == t, "Unlock by a thread that does not hold the lock")
				o.rel = mix(t.h, 3)
				o.racc = 0
				t.h = mix(t.h, 4)
				o.held = nil
			case opRUnlock:
				o := s.obj(r.obj)
				invariant(o.readers > 0, "RUnlock without readers")
				o.racc += mix(t.h, 6)
				t.h = mix(t.h, 7)
				o.readers--
			case opSemRel:
				o := s.obj(r.obj)
				t.h = mix(t.h, 19, s.nm(o, t), o.rel, uint64(r.n))
				o.rel = mix(t.h)
				o.count -= r.n
				invariant(o.count >= 0, "semaphore released more than acquired")
			case opWGAdd:
				o := s.obj(r.obj)
				o.racc += mix(t.h, 9, uint64(r.n+1000))
				t.h = mix(t.h, 10)
				o.count += r.n
				invariant(o.count >= 0, "negative WaitGroup counter")
			case opSpawn:
				nt := &thread{id: len(s.threads), wake: make(chan struct{}), h: mix(t.h, 15), timer: r.n == 1, dur: r.dur}
				t.h = mix(t.h, 16)
				nt.pend = req{t: nt, op: opStart}
				if nt.timer {
					nt.pend.op = opTimer
				}
				s.threads = append(s.threads, nt)
				t.spawned = nt
			case opSignal:
				o := s.obj(r.obj)
				t.h = mix(t.h, 20, s.nm(o, t), o.rel)
				o.rel = mix(t.h)
				if len(o.waiters) > 0 {
					o.waiters[0].signalled = true
					o.waiters = o.waiters[1:]
				}
			case opBroadcast:
				o := s.obj(r.obj)
				t.h = mix(t.h, 24, s.nm(o, t), o.rel)
				o.rel = mix(t.h)
				for _, w := range o.waiters {
					w.signalled = true
				}
				o.waiters = nil
			case opTimerStop:
				if !r.timer.done && r.timer.pend.op == opTimer {
					r.timer.done = true
					r.timer.wake <- struct{}{} // let the parked timer goroutine finish without firing
					<-s.ctl                    // its exit notice
				}
				t.h = mix(t.h, 25)
			case opExit:
				t.h = mix(t.h, 17)
				t.done = true
				break serve
			default:
				t.pend = r
				break serve
			}
			t.wake <- struct{}{}
		}
	}
}

//go:norace
func isCancelled(t *thread) bool { return t.done }

//go:norace
func threadMain(t *thread, fn func()) {
	raceDisable()
	<-t.wake
	raceEnable()
	if !isCancelled(t) {
		runBody(t, fn)
	}
	raceReleaseMerge(unsafe.Pointer(&endToken))
	raceDisable()
	active.ctl <- req{t: t, op: opExit}
	raceEnable()
}

func runBody(t *thread, fn func()) {
	defer func() {
		if r := recover(); r != nil {
			notePanic(t, fmt.Sprint(r), string(debug.Stack()))
		}
	}()
	fn()
}

//go:norace
func notePanic(t *thread, v, stack string) {
	t.panicked = true
	active.res.Panics = append(active.res.Panics, ThreadPanic{Thread: t.id, Value: v, Stack: stack})
}

// Run executes the thread bodies under the controller following prefix, then default choices.
//
//go:norace
func Run(prefix []int, trace bool, bodies ...func()) *Result {
	if active != nil {
		panic("zvsync: nested Run")
	}
	s := &sched{ctl: make(chan req), objs: map[unsafe.Pointer]*objState{}, vers: map[uint64]uint64{}, prefix: prefix, res: &Result{}, trace: trace, horizon: Horizon}
	for i, b := range bodies {
		t := &thread{id: i, wake: make(chan struct{}), h: mix(uint64(i), 77)}
		t.pend = req{t: t, op: opStart}
		s.threads = append(s.threads, t)
		go threadMain(t, b)
	}
	active = s
	s.loop()
	active = nil
	raceAcquire(unsafe.Pointer(&endToken))
	return s.res
}

func mix(vs ...uint64) uint64 {
	h := uint64(0x9e3779b97f4a7c15)
	for _, v := range vs {
		h ^= v + 0x9e3779b97f4a7c15 + (h << 6) + (h >> 2)
		h *= 0xbf58476d1ce4e5b9
		h ^= h >> 31
	}
	return h
}

func (s *sched) key() uint64 {
	var k uint64
	for _, t := range s.threads {
		k += mix(t.h, 99)
	}
	return k
}

func strHash(str string) uint64 {
	h := uint64(1469598103934665603)
	for i := 0; i < len(str); i++ {
		h ^= uint64(str[i])
		h *= 1099511628211
	}
	return h
}

// ---------------------------------------------------------------------------
// public shim API

// Access is a scheduling point on a named datum (a store slot); write publishes a new version.
func Access(name string, write bool) {
	if current() == nil {
		return
	}
	call(req{op: opAccess, label: name, write: write})
}

// vctx is the context handed out by WithTimeout. The controller must not touch the
// internals of a context (they are written by virtual threads and the hand-offs are hidden
// from the race detector), so cancellation is mirrored in a flag only norace code reads.
type vctx struct {
	context.Context
	done     bool
	parent   *vctx // the enclosing virtual-timer context, if any: its cancellation is this one's too
	deadline time.Time
}

func (v *vctx) Deadline() (time.Time, bool) { return v.deadline, true }

type vctxKey struct{}

func (v *vctx) Value(k interface{}) interface{} {
	if _, ok := k.(vctxKey); ok {
		return v
	}
	return v.Context.Value(k)
}

//go:norace
func isDone(v *vctx) bool {
	for ; v != nil; v = v.parent {
		if v.done {
			return true
		}
	}
	return false
}

//go:norace
func markDone(v *vctx) { v.done = true }

func vctxOf(ctx context.Context) *vctx {
	v, _ := ctx.Value(vctxKey{}).(*vctx)
	return v
}

// WaitCancel blocks the calling virtual thread until ctx (derived from WithTimeout) is done.
func WaitCancel(ctx context.Context) {
	if current() == nil {
		<-ctx.Done()
		return
	}
	call(req{op: opWaitCtx, vc: vctxOf(ctx)})
}

//go:norace
func spawnedOf() *thread { return active.cur.spawned }

//go:norace
func grantedOf() bool { return active.cur.granted }

// Go replaces the go statement.
func Go(fn func()) {
	if current() == nil {
		go fn()
		return
	}
	call(req{op: opSpawn})
	go threadMain(spawnedOf(), fn)
}

// WithTimeout replaces context.WithTimeout / WithDeadline: a virtual timer thread whose
// single step cancels the context. The default schedule fires it only when nothing else can run.
func WithTimeout(parent context.Context, d time.Duration) (context.Context, context.CancelFunc) {
	if current() == nil {
		return context.WithTimeout(parent, d)
	}
	inner, cancel := context.WithCancel(parent)
	v := &vctx{Context: inner, parent: vctxOf(parent), deadline: time.Now().Add(d)}
	if pd, ok := parent.Deadline(); ok && pd.Before(v.deadline) {
		v.deadline = pd
	}
	call(req{op: opSpawn, n: 1, dur: d})
	tt := spawnedOf()
	go threadMain(tt, func() { markDone(v); cancel() })
	return v, func() {
		if current() != nil {
			call(req{op: opTimerStop, timer: tt})
		}
		markDone(v)
		cancel()
	}
}

// WithDeadline is routed through the same virtual timer.
func WithDeadline(parent context.Context, t time.Time) (context.Context, context.CancelFunc) {
	if current() == nil {
		return context.WithDeadline(parent, t)
	}
	return WithTimeout(parent, time.Until(t))
}

type Mutex struct {
	real realsync.Mutex
	pad  uint64
}

func (m *Mutex) Lock() {
	if current() == nil {
		m.real.Lock()
		return
	}
	call(req{op: opLock, obj: unsafe.Pointer(m)})
	raceAcquire(unsafe.Pointer(&m.pad))
}

func (m *Mutex) TryLock() bool {
	if current() == nil {
		return m.real.TryLock()
	}
	call(req{op: opTryLock, obj: unsafe.Pointer(m)})
	if grantedOf() {
		raceAcquire(unsafe.Pointer(&m.pad))
		return true
	}
	return false
}

func (m *Mutex) Unlock() {
	if current() == nil {
		m.real.Unlock()
		return
	}
	raceRelease(unsafe.Pointer(&m.pad))
	call(req{op: opUnlock, obj: unsafe.Pointer(m)})
}

type RWMutex struct {
	real       realsync.RWMutex
	rsem, wsem uint64
}

func (m *RWMutex) Lock() {
	if current() == nil {
		m.real.Lock()
		return
	}
	call(req{op: opWAnnounce, obj: unsafe.Pointer(m)})
	call(req{op: opWAcquire, obj: unsafe.Pointer(m)})
	raceAcquire(unsafe.Pointer(&m.rsem))
	raceAcquire(unsafe.Pointer(&m.wsem))
}

func (m *RWMutex) Unlock() {
	if current() == nil {
		m.real.Unlock()
		return
	}
	raceRelease(unsafe.Pointer(&m.rsem))
	call(req{op: opWUnlock, obj: unsafe.Pointer(m)})
}

func (m *RWMutex) RLock() {
	if current() == nil {
		m.real.RLock()
		return
	}
	call(req{op: opRLock, obj: unsafe.Pointer(m)})
	raceAcquire(unsafe.Pointer(&m.rsem))
}

func (m *RWMutex) RUnlock() {
	if current() == nil {
		m.real.RUnlock()
		return
	}
	raceReleaseMerge(unsafe.Pointer(&m.wsem))
	call(req{op: opRUnlock, obj: unsafe.Pointer(m)})
}

func (m *RWMutex) TryLock() bool {
	if current() == nil {
		return m.real.TryLock()
	}
	call(req{op: opTryLock, obj: unsafe.Pointer(m)})
	if grantedOf() {
		raceAcquire(unsafe.Pointer(&m.rsem))
		raceAcquire(unsafe.Pointer(&m.wsem))
		return true
	}
	return false
}

func (m *RWMutex) TryRLock() bool {
	if current() == nil {
		return m.real.TryRLock()
	}
	call(req{op: opTryRLock, obj: unsafe.Pointer(m)})
	if grantedOf() {
		raceAcquire(unsafe.Pointer(&m.rsem))
		return true
	}
	return false
}

func (m *RWMutex) RLocker() Locker { return (*rlocker)(m) }

type rlocker RWMutex

func (r *rlocker) Lock()   { (*RWMutex)(r).RLock() }
func (r *rlocker) Unlock() { (*RWMutex)(r).RUnlock() }

type WaitGroup struct {
	real realsync.WaitGroup
	pad  uint64
}

func (w *WaitGroup) Add(n int) {
	if current() == nil {
		w.real.Add(n)
		return
	}
	if n < 0 {
		raceReleaseMerge(unsafe.Pointer(&w.pad))
	}
	call(req{op: opWGAdd, obj: unsafe.Pointer(w), n: n})
}

func (w *WaitGroup) Done() { w.Add(-1) }

func (w *WaitGroup) Wait() {
	if current() == nil {
		w.real.Wait()
		return
	}
	call(req{op: opWGWait, obj: unsafe.Pointer(w)})
	raceAcquire(unsafe.Pointer(&w.pad))
}

type Cond struct {
	L    Locker
	real *realsync.Cond
	pad  uint64
}

func NewCond(l Locker) *Cond { return &Cond{L: l, real: realsync.NewCond(l)} }

func (c *Cond) Wait() {
	if current() == nil {
		c.real.Wait()
		return
	}
	var lp unsafe.Pointer
	rw := false
	switch v := c.L.(type) {
	case *Mutex:
		raceRelease(unsafe.Pointer(&v.pad))
		lp = unsafe.Pointer(v)
	case *RWMutex:
		raceRelease(unsafe.Pointer(&v.rsem))
		lp = unsafe.Pointer(v)
		rw = true
	default:
		panic("zvsync: Cond over an unsupported Locker")
	}
	call(req{op: opCondWait, obj: unsafe.Pointer(c), obj2: lp, rw: rw})
	switch v := c.L.(type) {
	case *Mutex:
		raceAcquire(unsafe.Pointer(&v.pad))
	case *RWMutex:
		raceAcquire(unsafe.Pointer(&v.rsem))
		raceAcquire(unsafe.Pointer(&v.wsem))
	}
}

func (c *Cond) Signal() {
	if current() == nil {
		c.real.Signal()
		return
	}
	call(req{op: opSignal, obj: unsafe.Pointer(c)})
}

func (c *Cond) Broadcast() {
	if current() == nil {
		c.real.Broadcast()
		return
	}
	call(req{op: opBroadcast, obj: unsafe.Pointer(c)})
}

// Weighted replaces golang.org/x/sync/semaphore.Weighted.
type Weighted struct {
	size int64
	mu   realsync.Mutex
	cur  int64
	cond *realsync.Cond
	pad  uint64
}

func NewWeighted(n int64) *Weighted {
	w := &Weighted{size: n}
	w.cond = realsync.NewCond(&w.mu)
	return w
}

func (w *Weighted) Acquire(ctx context.Context, n int64) error {
	if current() == nil {
		// direct mode: a plain blocking semaphore that honours a context that is already done
		if err := ctx.Err(); err != nil {
			return err
		}
		w.mu.Lock()
		for w.size-w.cur < n {
			w.cond.Wait()
		}
		w.cur += n
		w.mu.Unlock()
		return nil
	}
	call(req{op: opSemAcq, obj: unsafe.Pointer(w), n: int(n), size: int(w.size), vc: vctxOf(ctx)})
	if !grantedOf() {
		return ctx.Err()
	}
	raceAcquire(unsafe.Pointer(&w.pad))
	return nil
}

func (w *Weighted) TryAcquire(n int64) bool {
	if current() == nil {
		w.mu.Lock()
		defer w.mu.Unlock()
		if w.size-w.cur >= n {
			w.cur += n
			return true
		}
		return false
	}
	call(req{op: opTrySem, obj: unsafe.Pointer(w), n: int(n), size: int(w.size)})
	if grantedOf() {
		raceAcquire(unsafe.Pointer(&w.pad))
		return true
	}
	return false
}

func (w *Weighted) Release(n int64) {
	if current() == nil {
		w.mu.Lock()
		w.cur -= n
		w.mu.Unlock()
		w.cond.Broadcast()
		return
	}
	raceReleaseMerge(unsafe.Pointer(&w.pad))
	call(req{op: opSemRel, obj: unsafe.Pointer(w), n: int(n)})
}

// RaceAcquire / RaceRelease expose the race-detector edges to the store double.
func RaceAcquire(p *uint64) { raceAcquire(unsafe.Pointer(p)) }
func RaceRelease(p *uint64) { raceRelease(unsafe.Pointer(p)) }

// Pool replaces sync.Pool. Under exploration it is a LIFO free list whose Get and Put are scheduling
// points: any pool may hand back the object that was put last, and the window between a Put and the
// last use of the object by the thread that put it is exactly what a pooled-buffer defect needs. Put
// to Get of one object is a happens-before edge (as in the real pool); nothing else is.
type Pool struct {
	New  func() any
	real realsync.Pool
	free []pooled
}

type pooled struct {
	v   any
	tok *uint64
}

//go:norace
func (p *Pool) pop() (pooled, bool) {
	if n := len(p.free); n > 0 {
		x := p.free[n-1]
		p.free = p.free[:n-1]
		return x, true
	}
	return pooled{}, false
}

//go:norace
func (p *Pool) push(x pooled) { p.free = append(p.free, x) }

func (p *Pool) Get() any {
	if current() == nil {
		if v := p.real.Get(); v != nil {
			return v
		}
		if p.New != nil {
			return p.New()
		}
		return nil
	}
	call(req{op: opAccess, label: "sync.Pool", write: true})
	if x, ok := p.pop(); ok {
		RaceAcquire(x.tok)
		return x.v
	}
	if p.New != nil {
		return p.New()
	}
	return nil
}

func (p *Pool) Put(v any) {
	if v == nil {
		return
	}
	if current() == nil {
		p.real.Put(v)
		return
	}
	call(req{op: opAccess, label: "sync.Pool", write: true})
	tok := new(uint64)
	RaceRelease(tok)
	p.push(pooled{v, tok})
	// and a point after the object became available: what the caller does next with the object it
	// has just given away (nothing, if it is correct) can be overtaken by the next owner
	call(req{op: opAccess, label: "sync.Pool", write: true})
}

// ChanYield is the scheduling point of a blocked channel operation that has been turned into a polling loop
// (engine/instr rewrites send statements; harness consumers poll explicitly). A polling thread is scheduled only
// when no other thread can make progress.
func ChanYield() {
	if current() == nil {
		runtime.Gosched()
		return
	}
	call(req{op: opYield})
}

var chanProgress bool

//go:norace
func takeChanProgress() bool { p := chanProgress; chanProgress = false; return p }

// ChanDone tells the scheduler that a channel operation went through (the pollers' turn counter starts again).
//
//go:norace
func ChanDone() { chanProgress = true }

// Send is `ch <- v` for harness code: a plain send outside exploration, a visible wait inside.
func Send[T any](ch chan<- T, v T) {
	if current() == nil {
		ch <- v
		return
	}
	for {
		select {
		case ch <- v:
			ChanDone()
			return
		default:
			ChanYield()
		}
	}
}

// Recv is `v, ok := <-ch` for harness code.
func Recv[T any](ch <-chan T) (T, bool) {
	if current() == nil {
		v, ok := <-ch
		return v, ok
	}
	for {
		select {
		case v, ok := <-ch:
			ChanDone()
			return v, ok
		default:
			ChanYield()
		}
	}
}

// Recv1 is `<-ch` in an expression position.
func Recv1[T any](ch <-chan T) T {
	v, _ := Recv(ch)
	return v
}
