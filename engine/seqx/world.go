// Package seqx is Engine A: explicit-state breadth-first search over operation
// histories executed on real ipfslog.IPFSLog objects, in lock-step with the
// reference model.
package seqx

import (
	"bytes"
	"crypto/sha256"
	"encoding/hex"
	"fmt"
	"sort"
	"strings"

	ipfslog "berty.tech/go-ipfs-log"
	"berty.tech/go-ipfs-log/accesscontroller"
	"berty.tech/go-ipfs-log/entry"
	"berty.tech/go-ipfs-log/entry/sorting"
	"berty.tech/go-ipfs-log/iface"
	"github.com/ipfs/go-cid"

	"verif/engine/refmodel"
	"verif/engine/run"
	"verif/engine/store"
	"verif/engine/world"
)

// Op is one operation of a history.
type Op struct {
	K string `json:"k"` // app | join | joinself | joinempty | joinforeign | pub | setid
	A int    `json:"a"`
	B int    `json:"b,omitempty"`
	N int    `json:"n,omitempty"` // pointer count for app (0 = configuration default)
	// Pin: append with AppendOptions.Pin (the entry block is pinned after it is written)
	Pin bool `json:"pin,omitempty"`
}

// ForeignIDs are the ids of the logs joinforeign merges from (indexed by Op.B).
var ForeignIDs = []string{"Y", "X/", "x", " X"}

func (o Op) String() string {
	switch o.K {
	case "joinforeign":
		return fmt.Sprintf("joinforeign(%d,id=%q)", o.A, ForeignIDs[o.B])
	case "app":
		pin := ""
		if o.Pin {
			pin = ",pin"
		}
		if o.N != 0 {
			return fmt.Sprintf("app(%d,pc=%d%s)", o.A, o.N, pin)
		}
		return fmt.Sprintf("app(%d%s)", o.A, pin)
	case "join":
		return fmt.Sprintf("join(%d<-%d)", o.A, o.B)
	case "setid":
		return fmt.Sprintf("setid(%d,w%d)", o.A, o.B)
	case "joinlast":
		return fmt.Sprintf("join(%d<-newest %d of %d)", o.A, o.N, o.B)
	case "appfixed":
		return fmt.Sprintf("app(%d,\"dup\")", o.A)
	case "appempty":
		return fmt.Sprintf("app(%d,\"\")", o.A)
	case "appbin":
		return fmt.Sprintf("app(%d,<binary>)", o.A)
	}
	return fmt.Sprintf("%s(%d)", o.K, o.A)
}

func PathString(p []Op) string {
	s := make([]string, len(p))
	for i, o := range p {
		s[i] = o.String()
	}
	return strings.Join(s, " ")
}

// Config fixes the replicas of a world.
type Config struct {
	Name    string
	Writers []int // writer identity per replica
	HashTie bool  // SortByEntryHash instead of the default ordering
	// FirstWins: sorting.FirstWriteWins as the log's ordering (a custom SortFn that does not put the largest
	// clock first). Only used by checks whose oracle does not depend on what the linearisation looks like.
	FirstWins bool
	PC        int // default pointer count for appends
	// StartClock[i] > 0 creates replica i with a Lamport clock already at that time.
	StartClock []int
	IO         func() iface.IO // codec per world (nil: default)
	// IOFor / SortFor, when set, give replica i its own codec / ordering (mixed configurations)
	IOFor   func(i int) iface.IO
	SortFor func(i int) iface.EntrySortFn
	AC      func(replica int) accesscontroller.Interface
	// ACShared, when set, is called once per world: all replicas get the SAME controller instance (World.SharedAC)
	ACShared func() accesscontroller.Interface
	// Conc > 0: LogOptions.Concurrency of every replica (the library default is 16, more than any world here holds)
	Conc uint
}

// SortFnOrNil exposes the configured ordering (nil = library default).
func (c *Config) SortFnOrNil() iface.EntrySortFn { return c.sortFn() }

func (c *Config) sortFn() iface.EntrySortFn {
	if c.FirstWins {
		return sorting.FirstWriteWins
	}
	if c.HashTie {
		return sorting.SortByEntryHash
	}
	return nil
}

type Published struct {
	Cid     cid.Cid
	Replica int
	Set     []int // model entry set at publication time
	Heads   []int
	AtAdd   int // number of block writes in the store when the CID was returned
}

// World is a tuple of real replicas on one store plus the model state.
type World struct {
	Cfg  *Config
	St   *store.Store
	Logs []*ipfslog.IPFSLog
	M    *refmodel.Model
	ML   []*refmodel.Log
	UID  map[string]int
	Ent  []iface.IPFSLogEntry // uid -> entry as returned by Append
	NApp int
	Pubs []Published
	// Returned[i] = number of block writes in the store when entry uid i was returned by Append
	Returned []int
	foreign  map[int]*ipfslog.IPFSLog
	WriterOf []int // current writer per replica (changes with setid)
	// Partial: some replica has merged a partial copy of another (joinlast); see adopt
	Partial bool
	// SharedAC: the one controller instance of all replicas (Config.ACShared)
	SharedAC accesscontroller.Interface
}

var writerRank []int

func initRanks() {
	if writerRank != nil {
		return
	}
	world.Init()
	idx := make([]int, len(world.IDs))
	for i := range idx {
		idx[i] = i
	}
	sort.Slice(idx, func(a, b int) bool {
		return bytes.Compare(world.IDs[idx[a]].PublicKey, world.IDs[idx[b]].PublicKey) < 0
	})
	r := make([]int, len(idx))
	for rank, w := range idx {
		r[w] = rank
	}
	writerRank = r
}

// StoreFactory makes the store of a new world (the scheduler harness installs a hooked store).
var StoreFactory = store.New

func NewWorld(cfg *Config) *World {
	initRanks()
	w := &World{Cfg: cfg, St: StoreFactory(), UID: map[string]int{}}
	w.M = &refmodel.Model{WriterRank: writerRank}
	w.M.Name = func(uid int) string { return w.Ent[uid].GetHash().String() }
	// Replicas that are configured alike are created from ONE options object, as an application with a
	// "default options" value would: a log must not keep, or write into, what the caller handed it.
	var sharedOpts *ipfslog.LogOptions
	if cfg.SortFor == nil && cfg.IOFor == nil && cfg.AC == nil && cfg.ACShared == nil && len(cfg.StartClock) == 0 {
		sharedOpts = &ipfslog.LogOptions{ID: "X", SortFn: cfg.sortFn()}
		if cfg.IO != nil {
			sharedOpts.IO = cfg.IO()
		}
		if cfg.Conc > 0 {
			sharedOpts.Concurrency = cfg.Conc
		}
	}
	for i, wr := range cfg.Writers {
		opts := &ipfslog.LogOptions{ID: "X", SortFn: cfg.sortFn()}
		if sharedOpts != nil {
			w.Logs = append(w.Logs, world.NewLog(w.St, wr, sharedOpts))
			w.ML = append(w.ML, refmodel.NewLog(wr, "X"))
			w.WriterOf = append(w.WriterOf, wr)
			continue
		}
		if cfg.SortFor != nil {
			opts.SortFn = cfg.SortFor(i)
		}
		if cfg.IO != nil {
			opts.IO = cfg.IO()
		}
		if cfg.IOFor != nil {
			opts.IO = cfg.IOFor(i)
		}
		if cfg.AC != nil {
			opts.AccessController = cfg.AC(i)
		}
		if cfg.ACShared != nil {
			if w.SharedAC == nil {
				w.SharedAC = cfg.ACShared()
			}
			opts.AccessController = w.SharedAC
		}
		if cfg.Conc > 0 {
			opts.Concurrency = cfg.Conc
		}
		ml := refmodel.NewLog(wr, "X")
		if i < len(cfg.StartClock) && cfg.StartClock[i] > 0 {
			opts.Clock = newClock(world.IDs[wr].PublicKey, cfg.StartClock[i])
			ml.Clock = cfg.StartClock[i]
		}
		w.Logs = append(w.Logs, world.NewLog(w.St, wr, opts))
		w.ML = append(w.ML, ml)
		w.WriterOf = append(w.WriterOf, wr)
	}
	return w
}

// Step is what one operation returned.
type Step struct {
	Err   error
	Entry iface.IPFSLogEntry // for app
	UID   int                // model uid of the appended entry (-1 otherwise)
	Cid   cid.Cid            // for pub
	Panic string             // trimmed stack if the call panicked on the calling goroutine
	PanV  string
	// TimeAboveMin / TimeBelowMin: the appended entry's clock time differs from the smallest legal one
	TimeAboveMin, TimeBelowMin bool
}

func (w *World) pc(o Op) int {
	if o.N != 0 {
		return o.N
	}
	if w.Cfg.PC != 0 {
		return w.Cfg.PC
	}
	return 1
}

// Apply executes op on the real replicas and on the model.
func (w *World) Apply(o Op) *Step {
	st := &Step{UID: -1}
	pv, stack := run.Safe(func() { w.apply(o, st) })
	if pv != nil {
		st.Panic = stack
		st.PanV = fmt.Sprint(pv)
	}
	return st
}

func (w *World) apply(o Op, st *Step) {
	switch o.K {
	case "app":
		w.NApp++
		e, err := w.Logs[o.A].Append(world.Ctx, []byte(fmt.Sprintf("p%d", w.NApp)), &ipfslog.AppendOptions{PointerCount: w.pc(o), Pin: o.Pin})
		st.Err, st.Entry = err, e
		if err == nil {
			me := w.M.Append(w.ML[o.A])
			// The model picks the smallest legal time (max seen + 1); the implementation may legitimately pick a
			// larger one (its clock also advances on a refused append). Which time an append may carry is judged by
			// C04 against the state before the call; for everything else (orderings) the model uses the entry's
			// actual time, which is a fact of the entry.
			if at := e.GetClock().GetTime(); at != me.Time {
				w.M.Entries[me.UID].Time = at
				if at > w.ML[o.A].Clock {
					w.ML[o.A].Clock = at
				}
				st.TimeAboveMin = at > me.Time
				st.TimeBelowMin = at < me.Time
			}
			st.UID = me.UID
			w.UID[e.GetHash().String()] = me.UID
			w.Ent = append(w.Ent, e)
			w.Returned = append(w.Returned, len(w.St.Adds))
		}
	case "appempty", "appbin":
		// an entry with an empty payload is a legal entry (Append accepts, signs and stores it); so is one whose payload
		// is not text (bytes that are not valid UTF-8)
		w.NApp++
		payload := []byte{}
		if o.K == "appbin" {
			payload = []byte{0xff, 0xfe, byte('0' + w.NApp%10), 0x80}
		}
		e, err := w.Logs[o.A].Append(world.Ctx, payload, &ipfslog.AppendOptions{PointerCount: w.pc(o)})
		st.Err, st.Entry = err, e
		if err == nil {
			me := w.M.Append(w.ML[o.A])
			if at := e.GetClock().GetTime(); at != me.Time {
				w.M.Entries[me.UID].Time = at
				if at > w.ML[o.A].Clock {
					w.ML[o.A].Clock = at
				}
			}
			st.UID = me.UID
			w.UID[e.GetHash().String()] = me.UID
			w.Ent = append(w.Ent, e)
			w.Returned = append(w.Returned, len(w.St.Adds))
		}
	case "appfixed":
		// the same payload every time: two replicas of one identity in the same state produce the very same entry
		e, err := w.Logs[o.A].Append(world.Ctx, []byte("dup"), &ipfslog.AppendOptions{PointerCount: w.pc(o)})
		st.Err, st.Entry = err, e
		if err == nil {
			me := w.M.Append(w.ML[o.A])
			if u, known := w.UID[e.GetHash().String()]; known {
				// an entry identical to one that already exists: it IS that entry
				w.M.Entries = w.M.Entries[:len(w.M.Entries)-1]
				delete(w.ML[o.A].Set, me.UID)
				w.ML[o.A].Set[u] = true
				st.UID = u
			} else {
				w.M.Entries[me.UID].Time = e.GetClock().GetTime()
				st.UID = me.UID
				w.UID[e.GetHash().String()] = me.UID
				w.Ent = append(w.Ent, e)
				w.Returned = append(w.Returned, len(w.St.Adds))
			}
			if t := e.GetClock().GetTime(); t > w.ML[o.A].Clock {
				w.ML[o.A].Clock = t
			}
		}
	case "join":
		_, st.Err = w.Logs[o.A].Join(w.Logs[o.B], -1)
		if st.Err == nil {
			w.M.Join(w.ML[o.A], w.ML[o.B])
			if w.Partial {
				w.adopt(o.A)
			}
		}
	case "joinlast":
		// an unbounded merge from a partial copy of replica B: a log opened over B's newest N entries only (what a
		// length-limited load of B gives). Its oldest entries name predecessors it does not hold.
		vals := w.Logs[o.B].Values().Slice()
		n := o.N
		if n > len(vals) {
			n = len(vals)
		}
		part := vals[len(vals)-n:]
		opts := &ipfslog.LogOptions{ID: "X", SortFn: w.Cfg.sortFn(), Entries: entry.NewOrderedMapFromEntries(part)}
		if w.Cfg.SortFor != nil {
			opts.SortFn = w.Cfg.SortFor(o.B)
		}
		pl := world.NewLog(w.St, w.WriterOf[o.B], opts)
		_, st.Err = w.Logs[o.A].Join(pl, -1)
		if st.Err == nil {
			var us []int
			for _, e := range part {
				us = append(us, w.UID[e.GetHash().String()])
			}
			w.M.JoinSet(w.ML[o.A], us)
			w.Partial = true
			w.adopt(o.A)
		}
	case "joinself":
		_, st.Err = w.Logs[o.A].Join(w.Logs[o.A], -1)
	case "joinempty":
		e := world.NewLog(w.St, w.WriterOf[o.A], &ipfslog.LogOptions{ID: "X", SortFn: w.Cfg.sortFn()})
		_, st.Err = w.Logs[o.A].Join(e, -1)
	case "joinforeign":
		// a log of another id: "Y", or (B = 1, 2, 3) an id that differs from "X" only by a trailing slash, by letter
		// case, or by surrounding white space; ids are compared exactly
		if w.foreign == nil {
			w.foreign = map[int]*ipfslog.IPFSLog{}
		}
		if w.foreign[o.B] == nil {
			f := world.NewLog(w.St, 3, &ipfslog.LogOptions{ID: ForeignIDs[o.B], SortFn: w.Cfg.sortFn()})
			f.Append(world.Ctx, []byte("y1"), nil)
			f.Append(world.Ctx, []byte("y2"), nil)
			w.foreign[o.B] = f
		}
		_, st.Err = w.Logs[o.A].Join(w.foreign[o.B], -1)
	case "pub":
		c, err := w.Logs[o.A].ToMultihash(world.Ctx)
		st.Err, st.Cid = err, c
		if err == nil {
			w.Pubs = append(w.Pubs, Published{Cid: c, Replica: o.A, Set: w.ML[o.A].UIDs(), Heads: w.M.Heads(w.ML[o.A]), AtAdd: len(w.St.Adds)})
		}
	case "setid":
		w.Logs[o.A].SetIdentity(world.IDs[o.B])
		w.WriterOf[o.A] = o.B
		w.ML[o.A].Writer = o.B
		// the statement of C04: the clock catches up with everything the log holds
		if mt := w.M.MaxTime(w.ML[o.A]); mt > w.ML[o.A].Clock {
			w.ML[o.A].Clock = mt
		}
	default:
		panic("seqx: unknown op " + o.K)
	}
}

// adopt makes the model of replica i hold exactly the entries the log holds. Once a world contains a log with holes,
// "merge = set union" is no longer what the statements promise (a merge walks the source from its heads and stops
// at entries the destination already holds, so the history behind an entry that arrived without it is never
// fetched); the properties over such states are self-consistency properties of the log's own entry set, and the
// model is only the vehicle for judging them.
func (w *World) adopt(i int) {
	set := map[int]bool{}
	for _, e := range w.Logs[i].GetEntries().Slice() {
		if u, ok := w.UID[e.GetHash().String()]; ok {
			set[u] = true
		}
	}
	w.ML[i].Set = set
}

// Replay builds a fresh world and applies path.
func Replay(cfg *Config, path []Op) *World {
	w := NewWorld(cfg)
	for _, o := range path {
		w.Apply(o)
	}
	return w
}

// uids maps entries to sorted model uids; unknown CIDs map to -1.
func (w *World) uids(es []iface.IPFSLogEntry) []int {
	r := make([]int, 0, len(es))
	for _, e := range es {
		u, ok := w.UID[e.GetHash().String()]
		if !ok {
			u = -1
		}
		r = append(r, u)
	}
	return r
}

func sortedCopy(a []int) []int {
	b := append([]int{}, a...)
	sort.Ints(b)
	return b
}

func eqInts(a, b []int) bool {
	if len(a) != len(b) {
		return false
	}
	for i := range a {
		if a[i] != b[i] {
			return false
		}
	}
	return true
}

// CheckModel compares every replica with the model: entry set, heads, and that
// the replica clock is not behind the model clock. Returns discrepancies.
func (w *World) CheckModel() []string {
	var errs []string
	for i, l := range w.Logs {
		got := sortedCopy(w.uids(l.GetEntries().Slice()))
		want := w.ML[i].UIDs()
		if !eqInts(got, want) {
			errs = append(errs, fmt.Sprintf("replica %d entries %v, model %v", i, got, want))
		}
		gh := sortedCopy(w.uids(l.Heads().Slice()))
		wh := w.M.Heads(w.ML[i])
		if !eqInts(gh, wh) {
			errs = append(errs, fmt.Sprintf("replica %d heads %v, model %v", i, gh, wh))
		}
	}
	return errs
}

// Key is the canonical state key: per replica sorted entries, sorted heads,
// clock time, clock id and the key set of the reverse index.
func (w *World) Key() string {
	h := sha256.New()
	for _, l := range w.Logs {
		es := world.Hashes(l.GetEntries())
		sort.Strings(es)
		hs := world.Hashes(l.RawHeads())
		sort.Strings(hs)
		var nk []string
		if l.Next != nil {
			nk = append(nk, l.Next.Keys()...)
			sort.Strings(nk)
		}
		fmt.Fprintf(h, "%v|%v|%d|%x|%v;", es, hs, l.Clock.GetTime(), l.Clock.GetID(), nk)
	}
	fmt.Fprintf(h, "pubs=%d", len(w.Pubs))
	return hex.EncodeToString(h.Sum(nil)[:12])
}

// Strict reports whether the configured ordering is a strict total order on
// the entries replica i holds (the condition under which C01/C03 fix the sequence).
func (w *World) Strict(i int) bool {
	return w.Cfg.HashTie || !w.M.HasTie(w.ML[i].Set)
}

// Obs is the digest of the observables of the state that must not depend on
// the path: per replica Heads() order, ToJSONLog head order and, under a strict
// ordering, the Values() sequence (otherwise the Values() set).
func (w *World) Obs() string {
	var sb strings.Builder
	for i, l := range w.Logs {
		vals := world.Hashes(l.Values())
		if !w.Strict(i) {
			sort.Strings(vals)
		}
		hs := world.Hashes(l.Heads())
		var jl []string
		for _, c := range l.ToJSONLog().Heads {
			jl = append(jl, c.String())
		}
		if !w.Strict(i) {
			sort.Strings(hs)
			sort.Strings(jl)
		}
		fmt.Fprintf(&sb, "%v|%v|%v;", vals, hs, jl)
	}
	s := sha256.Sum256([]byte(sb.String()))
	return hex.EncodeToString(s[:8])
}

// Describe renders replica i for messages: payloads of values and heads.
func (w *World) Describe(i int) string {
	l := w.Logs[i]
	return fmt.Sprintf("values=%v heads=%v clock=%d", payloads(l.Values().Slice()), payloads(l.Heads().Slice()), l.Clock.GetTime())
}

func payloads(es []iface.IPFSLogEntry) []string {
	r := make([]string, len(es))
	for i, e := range es {
		r[i] = string(e.GetPayload())
	}
	return r
}

// Payloads is exported for checks.
func Payloads(es []iface.IPFSLogEntry) []string { return payloads(es) }
