package seqx

func chainOps(r, n int) []Op {
	var p []Op
	for i := 0; i < n; i++ {
		p = append(p, Op{K: "app", A: r})
	}
	return p
}

// Shapes are small stored logs (read from replica 0) used by the loader and fetcher checks.
var Shapes = map[string][]Op{
	"chain3":  chainOps(0, 3),
	"chain4":  chainOps(0, 4),
	"chain6":  chainOps(0, 6),
	"chain8":  chainOps(0, 8),
	"fork":    {{K: "app", A: 0}, {K: "join", A: 1, B: 0}, {K: "app", A: 0}, {K: "app", A: 1}, {K: "join", A: 0, B: 1}},
	"diamond": {{K: "app", A: 0}, {K: "join", A: 1, B: 0}, {K: "app", A: 0}, {K: "app", A: 1}, {K: "join", A: 0, B: 1}, {K: "app", A: 0}},
	"heads3":  {{K: "app", A: 0}, {K: "app", A: 1}, {K: "app", A: 2}, {K: "join", A: 0, B: 1}, {K: "join", A: 0, B: 2}},
	"stale":   {{K: "app", A: 0}, {K: "app", A: 0}, {K: "join", A: 1, B: 0}, {K: "app", A: 1}, {K: "app", A: 0}, {K: "app", A: 0}, {K: "join", A: 0, B: 1}},
	// a long chain and, next to it, a head as old as the chain's first entry
	"oldhead": {{K: "app", A: 0}, {K: "app", A: 0}, {K: "app", A: 0}, {K: "app", A: 0}, {K: "app", A: 0}, {K: "app", A: 1}, {K: "join", A: 0, B: 1}},
	"wide":    {{K: "app", A: 0}, {K: "join", A: 1, B: 0}, {K: "join", A: 2, B: 0}, {K: "app", A: 0}, {K: "app", A: 1}, {K: "app", A: 2}, {K: "join", A: 0, B: 1}, {K: "join", A: 0, B: 2}, {K: "app", A: 0}},
}

var ShapeNames = []string{"chain3", "chain4", "fork", "diamond", "heads3", "stale", "chain6", "wide", "chain8", "oldhead"}
