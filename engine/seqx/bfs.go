package seqx

import (
	"fmt"
	"os"
	"runtime"
	"sort"
	"sync"
	"sync/atomic"

	"berty.tech/go-ipfs-log/entry"
	"berty.tech/go-ipfs-log/iface"

	"verif/engine/run"
)

func newClock(id []byte, t int) iface.IPFSLogLamportClock { return entry.NewLamportClock(id, t) }

// Case is the replayable description of one BFS transition or probe.
type Case struct {
	Config string `json:"config"`
	Prefix string `json:"prefix,omitempty"`
	Path   []Op   `json:"path"`
	Probe  string `json:"probe,omitempty"`
	Other  []Op   `json:"other,omitempty"` // for probe "obs": the earlier history that reached the same canonical state
}

type seenState struct {
	obs  string
	path []Op
}

// Pre is the snapshot taken before a transition (used by transition oracles).
type Pre struct {
	Key string
	// per replica
	Values  [][]string // CID strings, in Values() order
	Heads   [][]string // CID strings of Heads() (sorted)
	Len     []int
	Clock   []int
	Entries [][]iface.IPFSLogEntry // GetEntries().Slice()
	Bytes   []map[string]string    // cid -> canonical dump of every field
	Strict  []bool
}

// Search describes one BFS.
type Search struct {
	Part     *run.Part
	Check    string
	Cfg      *Config
	Alphabet []Op
	Depth    int
	Prefix   []Op   // macro prefix applied before the search starts (non-initial start state)
	PrefixID string // name of the prefix for reports
	NeedPre  bool
	// OnTransition is called for every executed transition (in a worker goroutine).
	OnTransition func(w *World, pre *Pre, op Op, st *Step, c Case)
	// OnState is called once for every distinct state with a fresh world in that state; it may mutate it.
	OnState func(w *World, c Case)
	// Fresh gives OnState another copy of the same state (probes that destroy the world).
	Deadline *run.Deadline
	Workers  int
	// results
	States      int
	Transitions int
	MaxDepth    int
	Frontier    [][]Op // last completed frontier (paths of states first reached at the last level)
	AllStates   [][]Op // shortest path of every state (only if KeepStates)
	KeepStates  bool
	Nontrivial  func(w *World) bool
	// ExhaustPaths: histories of up to this many operations are never pruned by the state key.
	ExhaustPaths      int
	PathsBeyondDedupe int
}

type succ struct {
	fi, oi int
	key    string
	obs    string
	path   []Op
	nontr  bool
}

// SnapPre snapshots the observables of w.
func SnapPre(w *World, full bool) *Pre {
	p := &Pre{Key: w.Key()}
	for i, l := range w.Logs {
		vals := l.Values().Slice()
		hs := make([]string, 0, len(vals))
		for _, e := range vals {
			hs = append(hs, e.GetHash().String())
		}
		p.Values = append(p.Values, hs)
		var hh []string
		for _, e := range l.Heads().Slice() {
			hh = append(hh, e.GetHash().String())
		}
		p.Heads = append(p.Heads, hh)
		p.Len = append(p.Len, l.Len())
		p.Clock = append(p.Clock, l.Clock.GetTime())
		p.Strict = append(p.Strict, w.Strict(i))
		es := l.GetEntries().Slice()
		p.Entries = append(p.Entries, es)
		if full {
			m := map[string]string{}
			for _, e := range es {
				m[e.GetHash().String()] = DumpEntry(e)
			}
			p.Bytes = append(p.Bytes, m)
		}
	}
	return p
}

// DumpEntry renders every field of an entry byte-exactly.
func DumpEntry(e iface.IPFSLogEntry) string {
	if e == nil {
		return "<nil>"
	}
	id := "<nil>"
	if i := e.GetIdentity(); i != nil {
		sig := "<nil>"
		if i.Signatures != nil {
			sig = fmt.Sprintf("%x/%x", i.Signatures.ID, i.Signatures.PublicKey)
		}
		id = fmt.Sprintf("%s|%x|%s|%s", i.ID, i.PublicKey, i.Type, sig)
	}
	ck := "<nil>"
	if c := e.GetClock(); c != nil {
		ck = fmt.Sprintf("%x@%d", c.GetID(), c.GetTime())
	}
	var ad []string
	for k, v := range e.GetAdditionalData() {
		ad = append(ad, k+"="+v)
	}
	sort.Strings(ad)
	return fmt.Sprintf("h=%s id=%q p=%x next=%v refs=%v v=%d key=%x sig=%x ident=%s clock=%s additional=%v",
		e.GetHash(), e.GetLogID(), e.GetPayload(), e.GetNext(), e.GetRefs(), e.GetV(), e.GetKey(), e.GetSig(), id, ck, ad)
}

func (s *Search) workers() int {
	if s.Workers > 0 {
		return s.Workers
	}
	n := runtime.NumCPU()
	if n > 16 {
		n = 16
	}
	return n
}

func (s *Search) fullPath(p []Op) []Op {
	return append(append([]Op{}, s.Prefix...), p...)
}

// Run performs the level-synchronous BFS.
func (s *Search) Run() {
	j := run.TheJournal
	w0 := Replay(s.Cfg, s.Prefix)
	seen := map[string]seenState{w0.Key(): {w0.Obs(), nil}}
	frontier := [][]Op{{}}
	s.States = 1
	if s.KeepStates {
		s.AllStates = append(s.AllStates, []Op{})
	}
	if s.OnState != nil {
		s.OnState(w0, Case{Config: s.Cfg.Name, Prefix: s.PrefixID, Path: s.fullPath(nil)})
	}
	nw := s.workers()
	for depth := 0; depth < s.Depth && len(frontier) > 0; depth++ {
		if s.Deadline.Expired() {
			s.Part.Inexhaustive(fmt.Sprintf("%s/%s%s: deadline reached, completed depth %d of %d", s.Check, s.Cfg.Name, s.PrefixID, depth, s.Depth))
			break
		}
		out := make([][]succ, len(frontier))
		var wg sync.WaitGroup
		idx := make(chan int, len(frontier))
		for i := range frontier {
			idx <- i
		}
		close(idx)
		var stop atomic.Bool
		for k := 0; k < nw; k++ {
			wg.Add(1)
			go func(slot int) {
				defer wg.Done()
				for fi := range idx {
					if s.Deadline.Expired() {
						stop.Store(true)
						return
					}
					p := frontier[fi]
					for oi, op := range s.Alphabet {
						np := append(append([]Op{}, p...), op)
						c := Case{Config: s.Cfg.Name, Prefix: s.PrefixID, Path: s.fullPath(np)}
						if j.Skip(c) {
							continue
						}
						j.Begin(slot, s.Part.Property, s.Check, c)
						w := Replay(s.Cfg, s.fullPath(p))
						var pre *Pre
						if s.OnTransition != nil {
							pre = SnapPre(w, s.NeedPre)
						}
						st := w.Apply(op)
						if s.OnTransition != nil {
							s.OnTransition(w, pre, op, st, c)
						}
						sc := succ{fi: fi, oi: oi, key: w.Key(), obs: w.Obs(), path: np}
						if s.Nontrivial != nil {
							sc.nontr = s.Nontrivial(w)
						}
						out[fi] = append(out[fi], sc)
						j.End(slot)
					}
				}
			}(k)
		}
		wg.Wait()
		if stop.Load() {
			s.Part.Inexhaustive(fmt.Sprintf("%s/%s%s: deadline reached inside depth %d of %d", s.Check, s.Cfg.Name, s.PrefixID, depth+1, s.Depth))
			break
		}
		var next [][]Op
		for fi := range out {
			for _, sc := range out[fi] {
				s.Transitions++
				dup := false
				if prev, ok := seen[sc.key]; ok {
					dup = true
					if prev.obs != sc.obs {
						s.Part.Violate(s.Check, s.Part.Property+":path-dependent-observables",
							fmt.Sprintf("the histories [%s] and [%s] reach the same entries, heads and clocks but expose different Values()/Heads()/manifest order", PathString(s.fullPath(prev.path)), PathString(s.fullPath(sc.path))),
							Case{Config: s.Cfg.Name, Prefix: s.PrefixID, Path: s.fullPath(sc.path), Probe: "obs", Other: s.fullPath(prev.path)})
					}
					// Histories up to ExhaustPaths operations are extended even when they reach a known
					// canonical state: the canonical key cannot see state a changed tree may hide inside
					// the objects (caches, memoised results), so short histories are enumerated path by path.
					if len(sc.path) > s.ExhaustPaths {
						continue
					}
					s.PathsBeyondDedupe++
				} else {
					seen[sc.key] = seenState{sc.obs, sc.path}
					s.States++
					if sc.nontr {
						s.Part.Nontriv(sc.key)
					}
					if s.KeepStates {
						s.AllStates = append(s.AllStates, sc.path)
					}
				}
				_ = dup
				next = append(next, sc.path)
			}
		}
		s.MaxDepth = depth + 1
		// per-state probes on the new states
		if s.OnState != nil && len(next) > 0 {
			idx := make(chan int, len(next))
			for i := range next {
				idx <- i
			}
			close(idx)
			var wg sync.WaitGroup
			for k := 0; k < nw; k++ {
				wg.Add(1)
				go func(slot int) {
					defer wg.Done()
					for i := range idx {
						if s.Deadline.Expired() {
							stop.Store(true)
							return
						}
						c := Case{Config: s.Cfg.Name, Prefix: s.PrefixID, Path: s.fullPath(next[i]), Probe: "state"}
						if j.Skip(c) {
							continue
						}
						j.Begin(slot, s.Part.Property, s.Check, c)
						s.OnState(Replay(s.Cfg, c.Path), c)
						j.End(slot)
					}
				}(k)
			}
			wg.Wait()
			if stop.Load() {
				s.Part.Inexhaustive(fmt.Sprintf("%s/%s%s: deadline reached in state probes at depth %d", s.Check, s.Cfg.Name, s.PrefixID, depth+1))
			}
		}
		frontier = next
		s.Frontier = next
		if os.Getenv("VERIF_VERBOSE") != "" {
			fmt.Fprintf(os.Stderr, "[%s %s%s] depth %d states %d frontier %d transitions %d\n", s.Check, s.Cfg.Name, s.PrefixID, depth+1, s.States, len(frontier), s.Transitions)
		}
	}
	s.Part.Add(int64(s.States), int64(s.Transitions), 0, int64(s.Transitions))
}

// ParallelFor runs fn(i, slot) for i in [0,n) on the worker pool.
func ParallelFor(n, workers int, fn func(i, slot int)) {
	if workers <= 0 {
		workers = runtime.NumCPU()
		if workers > 16 {
			workers = 16
		}
	}
	idx := make(chan int, n)
	for i := 0; i < n; i++ {
		idx <- i
	}
	close(idx)
	var wg sync.WaitGroup
	for k := 0; k < workers; k++ {
		wg.Add(1)
		go func(slot int) {
			defer wg.Done()
			for i := range idx {
				fn(i, slot)
			}
		}(k)
	}
	wg.Wait()
}

// RunPath executes one full path (prefix included in path) with the transition
// oracle at every step beyond the prefix and the state probe at the end: the replay of a Case.
func (s *Search) RunPath(c Case) {
	if c.Probe == "obs" {
		a, b := Replay(s.Cfg, c.Path), Replay(s.Cfg, c.Other)
		if a.Key() == b.Key() && a.Obs() != b.Obs() {
			s.Part.Violate(s.Check, s.Part.Property+":path-dependent-observables", "same canonical state, different observables", c)
		}
		return
	}
	w := NewWorld(s.Cfg)
	for i, op := range c.Path {
		var pre *Pre
		if s.OnTransition != nil && i >= len(s.Prefix) {
			pre = SnapPre(w, s.NeedPre)
		}
		st := w.Apply(op)
		if s.OnTransition != nil && i >= len(s.Prefix) {
			cc := c
			cc.Path = c.Path[:i+1]
			s.OnTransition(w, pre, op, st, cc)
		}
	}
	if s.OnState != nil {
		s.OnState(Replay(s.Cfg, c.Path), c)
	}
}
