// Package refmodel is the boring reference model of the log CRDT, written from
// the property statements (not from log.go). Entries are identified by small
// integer uids; a log is a set of uids plus a Lamport time.
package refmodel

import "sort"

type Entry struct {
	UID    int
	Writer int // index of the writer identity (its public key is the clock id)
	Time   int
	Next   []int // predecessors (sorted uids)
	LogID  string
}

type Log struct {
	Set    map[int]bool
	Clock  int // replica Lamport time
	Writer int
	LogID  string
}

type Model struct {
	Entries []Entry // index = uid
	// WriterRank[w] orders writers the way the comparators order clock ids (bytes.Compare of public keys).
	WriterRank []int
	// Tie breaks equal (time, writer) pairs under the hash-tiebreak ordering: name of a uid (its CID string).
	Name func(uid int) string
}

func NewLog(writer int, logID string) *Log {
	return &Log{Set: map[int]bool{}, Writer: writer, LogID: logID}
}

func (l *Log) Clone() *Log {
	c := &Log{Set: make(map[int]bool, len(l.Set)), Clock: l.Clock, Writer: l.Writer, LogID: l.LogID}
	for k := range l.Set {
		c.Set[k] = true
	}
	return c
}

func (l *Log) UIDs() []int {
	r := make([]int, 0, len(l.Set))
	for k := range l.Set {
		r = append(r, k)
	}
	sort.Ints(r)
	return r
}

// HeadsOf returns the members of set that no member of set names as a predecessor.
func (m *Model) HeadsOf(set map[int]bool) []int {
	ref := map[int]bool{}
	for u := range set {
		for _, n := range m.Entries[u].Next {
			ref[n] = true
		}
	}
	var r []int
	for u := range set {
		if !ref[u] {
			r = append(r, u)
		}
	}
	sort.Ints(r)
	return r
}

func (m *Model) Heads(l *Log) []int { return m.HeadsOf(l.Set) }

// MaxTime is the largest entry time in the log (0 if empty).
func (m *Model) MaxTime(l *Log) int {
	t := 0
	for u := range l.Set {
		if m.Entries[u].Time > t {
			t = m.Entries[u].Time
		}
	}
	return t
}

// Append adds a new entry by the log's writer: next = heads, time = max(everything seen)+1.
func (m *Model) Append(l *Log) Entry {
	t := l.Clock
	if mt := m.MaxTime(l); mt > t {
		t = mt
	}
	e := Entry{UID: len(m.Entries), Writer: l.Writer, Time: t + 1, Next: m.Heads(l), LogID: l.LogID}
	m.Entries = append(m.Entries, e)
	l.Set[e.UID] = true
	l.Clock = e.Time
	return e
}

// Join is set union (same log id only); the replica clock catches up.
func (m *Model) Join(dst, src *Log) {
	if dst == src || dst.LogID != src.LogID {
		return
	}
	for u := range src.Set {
		if m.Entries[u].LogID == dst.LogID {
			dst.Set[u] = true
		}
	}
	if mt := m.MaxTime(dst); mt > dst.Clock {
		dst.Clock = mt
	}
}

// JoinSet is the union with an arbitrary set of entries (a partial copy of another log).
func (m *Model) JoinSet(dst *Log, uids []int) {
	for _, u := range uids {
		if m.Entries[u].LogID == dst.LogID {
			dst.Set[u] = true
		}
	}
	if mt := m.MaxTime(dst); mt > dst.Clock {
		dst.Clock = mt
	}
}

// Less is the strict order (time, writer rank[, name]); strictHash adds the name tiebreak.
func (m *Model) Less(a, b int, hashTie bool) bool {
	ea, eb := m.Entries[a], m.Entries[b]
	if ea.Time != eb.Time {
		return ea.Time < eb.Time
	}
	ra, rb := m.WriterRank[ea.Writer], m.WriterRank[eb.Writer]
	if ra != rb {
		return ra < rb
	}
	if hashTie {
		return m.Name(a) < m.Name(b)
	}
	return false
}

// HasTie reports whether two distinct members share (time, writer).
func (m *Model) HasTie(set map[int]bool) bool {
	seen := map[[2]int]bool{}
	for u := range set {
		k := [2]int{m.Entries[u].Time, m.Entries[u].Writer}
		if seen[k] {
			return true
		}
		seen[k] = true
	}
	return false
}

// Lin is the ascending linearisation of set.
func (m *Model) Lin(set map[int]bool, hashTie bool) []int {
	r := make([]int, 0, len(set))
	for u := range set {
		r = append(r, u)
	}
	sort.Ints(r)
	sort.SliceStable(r, func(i, j int) bool { return m.Less(r[i], r[j], hashTie) })
	return r
}

// JoinN keeps the last min(n,total) entries of the linearisation of the union.
func (m *Model) JoinN(dst, src *Log, n int, hashTie bool) map[int]bool {
	u := dst.Clone()
	m.Join(u, src)
	lin := m.Lin(u.Set, hashTie)
	if n < len(lin) {
		lin = lin[len(lin)-n:]
	}
	out := map[int]bool{}
	for _, x := range lin {
		out[x] = true
	}
	return out
}

// Past is the closure of roots under Next inside set (roots included).
func (m *Model) Past(set map[int]bool, roots []int) map[int]bool {
	out := map[int]bool{}
	var stack []int
	for _, r := range roots {
		if set[r] && !out[r] {
			out[r] = true
			stack = append(stack, r)
		}
	}
	for len(stack) > 0 {
		u := stack[len(stack)-1]
		stack = stack[:len(stack)-1]
		for _, n := range m.Entries[u].Next {
			if set[n] && !out[n] {
				out[n] = true
				stack = append(stack, n)
			}
		}
	}
	return out
}
