// Package run is the plumbing shared by all checks: the report that becomes
// evidence, violations with structural keys and replayable cases, the journal
// that lets the supervisor attribute a process death to the case that caused
// it, and panic capture on the calling goroutine.
package run

import (
	"encoding/json"
	"fmt"
	"os"
	"path/filepath"
	"runtime/debug"
	"sort"
	"strings"
	"sync"
	"time"
)

// Violation is one counter-example. Key is a structural signature: two
// violations with the same key are "the same finding"; a different failure of
// the same property must get a different key.
type Violation struct {
	Property string          `json:"property"`
	Check    string          `json:"check"` // sub-check / scenario that found it
	Key      string          `json:"key"`
	What     string          `json:"what"`
	Case     json.RawMessage `json:"case"` // replayable case, opaque to the plumbing
	Count    int             `json:"count"`
	Replay   string          `json:"replay,omitempty"`
}

// Part is what one engine run reports for one property.
type Part struct {
	Property    string                 `json:"property"`
	Engine      string                 `json:"engine"`
	Tier        string                 `json:"tier"`
	States      int64                  `json:"states"`
	Transitions int64                  `json:"transitions"`
	Validated   int64                  `json:"traces_validated_against_impl"`
	Evaluations int64                  `json:"evaluations"`
	Nontrivial  int64                  `json:"distinct_nontrivial"`
	Rule        string                 `json:"rule"`
	Samples     []interface{}          `json:"samples"`
	Exhaustive  bool                   `json:"exhaustive"`
	Assumptions []string               `json:"assumptions"`
	Extra       map[string]interface{} `json:"extra"`
	Violations  []*Violation           `json:"violations"`
	WallS       float64                `json:"wall_s"`
	Notes       []string               `json:"notes"`

	mu      sync.Mutex
	byKey   map[string]*Violation
	started time.Time
	nontriv map[string]bool
}

func NewPart(property, engine, tier string) *Part {
	return &Part{Property: property, Engine: engine, Tier: tier, Exhaustive: true,
		Samples: []interface{}{}, Violations: []*Violation{}, Assumptions: []string{}, Notes: []string{},
		Extra: map[string]interface{}{}, byKey: map[string]*Violation{}, started: time.Now(), nontriv: map[string]bool{}}
}

// Violate records a violation (first case per key is kept; later ones only counted).
func (p *Part) Violate(check, key, what string, c interface{}) {
	p.mu.Lock()
	defer p.mu.Unlock()
	if v, ok := p.byKey[key]; ok {
		v.Count++
		return
	}
	raw, err := json.Marshal(c)
	if err != nil {
		raw = []byte(fmt.Sprintf("%q", fmt.Sprint(c)))
	}
	v := &Violation{Property: p.Property, Check: check, Key: key, What: what, Case: raw, Count: 1}
	p.byKey[key] = v
	p.Violations = append(p.Violations, v)
}

// NViolations returns the number of distinct violation keys so far.
func (p *Part) NViolations() int {
	p.mu.Lock()
	defer p.mu.Unlock()
	return len(p.Violations)
}

// Sample keeps up to max written-out cases.
func (p *Part) Sample(max int, s interface{}) {
	p.mu.Lock()
	defer p.mu.Unlock()
	if len(p.Samples) < max {
		p.Samples = append(p.Samples, s)
	}
}

// Nontriv counts a distinct non-trivial case (by its identity string).
func (p *Part) Nontriv(id string) {
	p.mu.Lock()
	if !p.nontriv[id] {
		p.nontriv[id] = true
		p.Nontrivial++
	}
	p.mu.Unlock()
}

func (p *Part) Add(states, transitions, validated, evals int64) {
	p.mu.Lock()
	p.States += states
	p.Transitions += transitions
	p.Validated += validated
	p.Evaluations += evals
	p.mu.Unlock()
}

func (p *Part) Note(format string, a ...interface{}) {
	p.mu.Lock()
	p.Notes = append(p.Notes, fmt.Sprintf(format, a...))
	p.mu.Unlock()
}

func (p *Part) SetExtra(k string, v interface{}) {
	p.mu.Lock()
	p.Extra[k] = v
	p.mu.Unlock()
}

// IncExtra adds to an integer counter in Extra.
func (p *Part) IncExtra(k string, d int64) {
	p.mu.Lock()
	cur, _ := p.Extra[k].(int64)
	p.Extra[k] = cur + d
	p.mu.Unlock()
}

func (p *Part) Inexhaustive(reason string) {
	p.mu.Lock()
	p.Exhaustive = false
	for _, n := range p.Notes {
		if n == "not exhaustive: "+reason {
			p.mu.Unlock()
			return
		}
	}
	p.Notes = append(p.Notes, "not exhaustive: "+reason)
	p.mu.Unlock()
}

func (p *Part) Assume(s ...string) {
	p.mu.Lock()
	p.Assumptions = append(p.Assumptions, s...)
	p.mu.Unlock()
}

// Write stores the part as JSON.
func (p *Part) Write(path string) error {
	p.mu.Lock()
	defer p.mu.Unlock()
	p.WallS = time.Since(p.started).Seconds()
	sort.SliceStable(p.Violations, func(i, j int) bool { return p.Violations[i].Key < p.Violations[j].Key })
	b, err := json.MarshalIndent(p, "", " ")
	if err != nil {
		return err
	}
	if err := os.MkdirAll(filepath.Dir(path), 0o755); err != nil {
		return err
	}
	return os.WriteFile(path, b, 0o644)
}

// ---------------------------------------------------------------------------
// deadline

// Deadline is an internal budget; checks poll Expired() between cases and stop
// with Inexhaustive rather than being killed from outside.
type Deadline struct{ at time.Time }

func NewDeadline(d time.Duration) *Deadline { return &Deadline{at: time.Now().Add(d)} }

// NewDeadlineAt makes a deadline at an absolute time (unix seconds); 0 means none.
func NewDeadlineAt(unix int64) *Deadline {
	if unix == 0 {
		return nil
	}
	return &Deadline{at: time.Unix(unix, 0)}
}

// Unix returns the absolute time of the deadline.
func (d *Deadline) Unix() int64   { return d.at.Unix() }
func (d *Deadline) Expired() bool { return d != nil && time.Now().After(d.at) }

// ---------------------------------------------------------------------------
// journal: one slot file per worker; the case about to run is written before it runs.

type Journal struct {
	dir  string
	mu   sync.Mutex
	fs   map[int]*os.File
	skip map[string]bool
}

var TheJournal *Journal

func OpenJournal(dir string) *Journal {
	if dir == "" {
		return nil
	}
	os.MkdirAll(dir, 0o755)
	j := &Journal{dir: dir, fs: map[int]*os.File{}, skip: map[string]bool{}}
	if sf := os.Getenv("VERIF_SKIP"); sf != "" {
		if b, err := os.ReadFile(sf); err == nil {
			var cases []json.RawMessage
			if json.Unmarshal(b, &cases) == nil {
				for _, c := range cases {
					j.skip[canon(c)] = true
				}
			}
		}
	}
	return j
}

func canon(raw []byte) string {
	var v interface{}
	if json.Unmarshal(raw, &v) != nil {
		return string(raw)
	}
	b, _ := json.Marshal(v)
	return string(b)
}

// Skip reports whether case c was reported as process-killing by an earlier attempt and must not be run again.
func (j *Journal) Skip(c interface{}) bool {
	if j == nil || len(j.skip) == 0 {
		return false
	}
	raw, _ := json.Marshal(c)
	return j.skip[canon(raw)]
}

// Begin records that worker slot is about to execute case c of check.
func (j *Journal) Begin(slot int, property, check string, c interface{}) {
	if j == nil {
		return
	}
	j.mu.Lock()
	f := j.fs[slot]
	if f == nil {
		var err error
		f, err = os.OpenFile(filepath.Join(j.dir, fmt.Sprintf("slot%03d.json", slot)), os.O_CREATE|os.O_RDWR|os.O_TRUNC, 0o644)
		if err != nil {
			j.mu.Unlock()
			return
		}
		j.fs[slot] = f
	}
	j.mu.Unlock()
	raw, _ := json.Marshal(c)
	b, _ := json.Marshal(map[string]interface{}{"property": property, "check": check, "case": json.RawMessage(raw)})
	b = append(b, '\n')
	f.Truncate(0)
	f.WriteAt(b, 0)
}

// End clears the slot (the case finished without killing the process).
func (j *Journal) End(slot int) {
	if j == nil {
		return
	}
	j.mu.Lock()
	f := j.fs[slot]
	j.mu.Unlock()
	if f != nil {
		f.Truncate(0)
	}
}

// ---------------------------------------------------------------------------
// panic capture on the calling goroutine

// Safe runs fn and returns the panic value and a trimmed stack if it panicked.
func Safe(fn func()) (pv interface{}, stack string) {
	defer func() {
		if r := recover(); r != nil {
			pv = r
			stack = TrimStack(string(debug.Stack()))
		}
	}()
	fn()
	return nil, ""
}

// TrimStack keeps the frames of berty.tech/go-ipfs-log from a stack dump.
func TrimStack(s string) string {
	var keep []string
	lines := strings.Split(s, "\n")
	for i := 0; i < len(lines); i++ {
		if strings.Contains(lines[i], "berty.tech/go-ipfs-log") && !strings.HasPrefix(lines[i], "\t") {
			fn := lines[i]
			if k := strings.LastIndex(fn, "("); k > 0 {
				fn = fn[:k]
			}
			loc := ""
			if i+1 < len(lines) {
				loc = strings.TrimSpace(lines[i+1])
				if k := strings.Index(loc, " +0x"); k > 0 {
					loc = loc[:k]
				}
			}
			keep = append(keep, fn+" @ "+loc)
		}
	}
	if len(keep) > 6 {
		keep = keep[:6]
	}
	return strings.Join(keep, " <- ")
}

// PanicSite is the innermost repository function of a trimmed stack (for keys).
func PanicSite(trimmed string) string {
	first := strings.Split(trimmed, " <- ")[0]
	if k := strings.Index(first, " @ "); k > 0 {
		fn := first[:k]
		loc := first[k+3:]
		if c := strings.LastIndex(loc, ":"); c > 0 {
			loc = filepath.Base(loc[:c]) // drop the line number: keys must survive unrelated edits
		}
		return fn + "@" + loc
	}
	return first
}
