// Package lru is the shim engine/instr substitutes for github.com/hashicorp/golang-lru in the repository's
// packages (virtual package berty.tech/go-ipfs-log/zvlru). It is the real cache behind the same API, with a
// scheduling point in front of every operation, so that what the library does between two cache operations
// (check, then act) can be interleaved with another thread's operations on the same cache. Under exploration
// the harness may also lower the capacity (Capacity > 0): a cache's capacity is a tuning parameter, and nothing
// the library promises may depend on it; a capacity of 2 puts "the entry was evicted in between" within reach of
// a two-thread scenario, which the real 128 would need hundreds of operations for.
package lru

import (
	reallru "github.com/hashicorp/golang-lru"

	"berty.tech/go-ipfs-log/zvsync"
)

// Capacity, when > 0 and an exploration is running, replaces the size the library asks for.
var Capacity int

type Cache struct {
	c *reallru.Cache
}

func size(n int) int {
	if Capacity > 0 && n > Capacity {
		return Capacity
	}
	return n
}

func New(n int) (*Cache, error) {
	c, err := reallru.New(size(n))
	if err != nil {
		return nil, err
	}
	return &Cache{c}, nil
}

func NewWithEvict(n int, onEvicted func(key interface{}, value interface{})) (*Cache, error) {
	c, err := reallru.NewWithEvict(size(n), onEvicted)
	if err != nil {
		return nil, err
	}
	return &Cache{c}, nil
}

func point(write bool) { zvsync.Access("lru-cache", write) }

func (c *Cache) Add(key, value interface{}) bool         { point(true); return c.c.Add(key, value) }
func (c *Cache) Get(key interface{}) (interface{}, bool) { point(true); return c.c.Get(key) }
func (c *Cache) Peek(key interface{}) (interface{}, bool) {
	point(false)
	return c.c.Peek(key)
}
func (c *Cache) Contains(key interface{}) bool { point(false); return c.c.Contains(key) }
func (c *Cache) ContainsOrAdd(key, value interface{}) (bool, bool) {
	point(true)
	return c.c.ContainsOrAdd(key, value)
}
func (c *Cache) PeekOrAdd(key, value interface{}) (interface{}, bool, bool) {
	point(true)
	return c.c.PeekOrAdd(key, value)
}
func (c *Cache) Remove(key interface{}) bool { point(true); return c.c.Remove(key) }
func (c *Cache) RemoveOldest() (interface{}, interface{}, bool) {
	point(true)
	return c.c.RemoveOldest()
}
func (c *Cache) GetOldest() (interface{}, interface{}, bool) { point(false); return c.c.GetOldest() }
func (c *Cache) Keys() []interface{}                         { point(false); return c.c.Keys() }
func (c *Cache) Len() int                                    { point(false); return c.c.Len() }
func (c *Cache) Purge()                                      { point(true); c.c.Purge() }
func (c *Cache) Resize(n int) int                            { point(true); return c.c.Resize(n) }
