// Package sched is Engine B: stateless depth-first exploration of the schedules
// of a small multi-threaded scenario running on the real code under the
// zvsync controller, with preemption bounding or happens-before state caching,
// and (in -race builds) the Go race detector as a per-execution monitor.
package sched

import (
	"fmt"
	"os"
	"path/filepath"
	"regexp"
	"sort"
	"strings"
	"unsafe"

	"berty.tech/go-ipfs-log/zvsync"

	"verif/engine/run"
)

// Finding is one oracle failure of one execution.
type Finding struct {
	Key  string
	What string
}

// Instance is one fresh copy of a scenario's world.
type Instance struct {
	Bodies []func()
	// Focus, when set, restricts preemptive switches (bounded mode) to lock operations on these objects;
	// switches at blocking points, store accesses, semaphore and condition operations are always explored.
	Focus []unsafe.Pointer
	// Check judges the finished execution; outcome is a short canonical description of the
	// final observable state (used to count distinct outcomes).
	Check func(res *zvsync.Result) (outcome string, findings []Finding)
}

type Scenario struct {
	Name string
	Make func() *Instance
}

type Options struct {
	Bound       int  // preemption bound (ignored with HBCache)
	HBCache     bool // unbounded exploration with happens-before state caching
	MaxExec     int  // safety cap on executions (0 = none)
	DefaultOnly bool // run the default schedule only (one execution)
	// DevBound > 0 selects deviation bounding instead of preemption bounding: every schedule that departs from
	// the default choice (index 0) at no more than DevBound scheduling points, whether the switch is free or not.
	// It is the bound used for scenarios whose free switches alone are too many (worker pile-ups in the fetcher).
	DevBound int
	Deadline *run.Deadline
	RaceLog  string // GORACE log_path prefix; empty = no race monitor
	Shard    int
	Shards   int
	Slot     int
	Property string
}

type Stats struct {
	Executions  int
	States      int
	MaxPoints   int
	Pruned      int
	Outcomes    map[string]int
	Exhaustive  bool
	Mode        string
	Deadlocks   int
	RaceReports int
	First       map[string][]int // first schedule that produced each outcome
}

// Case is the replayable description of one execution.
type Case struct {
	Scenario string `json:"scenario"`
	Schedule []int  `json:"schedule"`
	Trace    string `json:"trace,omitempty"`
	// Tier: the tier whose scenario list the schedule belongs to (a scenario of one name may build a larger world in the
	// thorough tier; a schedule only means something on the world it was recorded on)
	Tier string `json:"tier,omitempty"`
}

type frame struct {
	prefix []int
	depth  int // 0 root, 1 first-level alternative, 2+ below
}

var raceRe = regexp.MustCompile(`(?s)WARNING: DATA RACE\n(.*?)\n==================`)
var frameRe = regexp.MustCompile(`(?m)^  (berty\.tech/go-ipfs-log[^\s]*)\(\)\n\s+(\S+?):\d+`)

type raceMon struct {
	prefix string
	off    map[string]int64
}

// poll returns the new race reports written since the last poll.
func (m *raceMon) poll() []string {
	if m == nil || m.prefix == "" {
		return nil
	}
	files, _ := filepath.Glob(m.prefix + ".*")
	var out []string
	for _, f := range files {
		b, err := os.ReadFile(f)
		if err != nil {
			continue
		}
		if int64(len(b)) <= m.off[f] {
			continue
		}
		chunk := string(b[m.off[f]:])
		m.off[f] = int64(len(b))
		for _, mm := range raceRe.FindAllStringSubmatch(chunk, -1) {
			out = append(out, mm[1])
		}
	}
	return out
}

// ClassifyRace reduces a race report to the unordered pair of innermost repository functions.
func ClassifyRace(report string) (key string, what string) {
	// split the report into its access blocks ("Read at", "Write at", "Previous read at", "Previous write at")
	blocks := regexp.MustCompile(`(?m)^(?:Previous )?(?:[Rr]ead|[Ww]rite) at .*$`).FindAllStringIndex(report, -1)
	var fns []string
	var kinds []string
	for i, b := range blocks {
		end := len(report)
		if i+1 < len(blocks) {
			end = blocks[i+1][0]
		}
		seg := report[b[0]:end]
		if k := strings.Index(seg, "\n\nGoroutine"); k > 0 {
			seg = seg[:k]
		}
		head := strings.ToLower(report[b[0]:b[1]])
		kind := "read"
		if strings.Contains(head, "write") {
			kind = "write"
		}
		fn := "?"
		for _, m := range frameRe.FindAllStringSubmatch(seg, -1) {
			if strings.Contains(m[1], "/zvsync.") {
				continue
			}
			fn = m[1] + "@" + filepath.Base(m[2])
			break
		}
		fns = append(fns, fn)
		kinds = append(kinds, kind)
	}
	if len(fns) >= 2 {
		pair := []string{kinds[0] + ":" + fns[0], kinds[1] + ":" + fns[1]}
		sort.Strings(pair)
		lines := strings.Split(report, "\n")
		if len(lines) > 14 {
			lines = lines[:14]
		}
		return "race:" + pair[0] + "|" + pair[1], "data race between " + pair[0] + " and " + pair[1] + "\n" + strings.Join(lines, "\n")
	}
	return "race:unclassified", report
}

// Explore runs the DFS. report is called for every finding with the schedule that produced it.
func Explore(sc Scenario, opt Options, report func(c Case, f Finding)) Stats {
	st := Stats{Outcomes: map[string]int{}, Exhaustive: true}
	if opt.DevBound > 0 {
		opt.HBCache = false
		st.Mode = fmt.Sprintf("deviation-bound=%d", opt.DevBound)
	} else if opt.HBCache {
		st.Mode = "unbounded+hbcache"
	} else {
		st.Mode = fmt.Sprintf("preemption-bound=%d", opt.Bound)
	}
	var mon *raceMon
	if opt.RaceLog != "" {
		mon = &raceMon{prefix: opt.RaceLog, off: map[string]int64{}}
		mon.poll()
	}
	expanded := map[uint64]bool{}
	stack := []frame{{prefix: nil}}
	shards := opt.Shards
	if shards <= 0 {
		shards = 1
	}
	topIndex := 0
	j := run.TheJournal
	raceSeen := false
	for len(stack) > 0 {
		if opt.Deadline.Expired() {
			st.Exhaustive = false
			break
		}
		if opt.MaxExec > 0 && st.Executions >= opt.MaxExec {
			st.Exhaustive = false
			break
		}
		fr := stack[len(stack)-1]
		stack = stack[:len(stack)-1]
		inst := sc.Make()
		c := Case{Scenario: sc.Name, Schedule: fr.prefix}
		if j.Skip(c) {
			st.Exhaustive = false
			continue
		}
		j.Begin(opt.Slot, opt.Property, sc.Name, c)
		zvsync.SetFocus(inst.Focus)
		res := zvsync.Run(fr.prefix, false, inst.Bodies...)
		j.End(opt.Slot)
		if inst.Focus != nil && !strings.Contains(st.Mode, "focus") {
			st.Mode += " (focus: preemptions only at the logs' own locks, store accesses, semaphores and condition variables)"
		}
		shared := shards > 1 && fr.depth <= 1 // executed by every shard; counted and reported by shard 0 only
		mine := !shared || opt.Shard == 0
		if mine {
			st.Executions++
		}
		if len(res.Points) > st.MaxPoints {
			st.MaxPoints = len(res.Points)
		}
		c.Schedule = res.Choices()
		var findings []Finding
		outcome := ""
		switch {
		case res.Uncontrollable != "":
			st.Exhaustive = false
			outcome = "uncontrollable"
			report(c, Finding{Key: "harness:uncontrollable", What: res.Uncontrollable})
			return st
		case res.Horizon:
			outcome = "horizon"
			findings = append(findings, Finding{Key: "livelock:horizon", What: fmt.Sprintf("the execution did not finish within %d scheduling points", zvsync.Horizon)})
		case res.Deadlock:
			st.Deadlocks++
			outcome = "deadlock"
			findings = append(findings, Finding{Key: "deadlock:" + deadlockShape(res.Blocked), What: "no thread can run: " + strings.Join(res.Blocked, " | ")})
		default:
			outcome, findings = inst.Check(res)
		}
		for _, pn := range res.Panics {
			tr := run.TrimStack(pn.Stack)
			findings = append(findings, Finding{Key: "thread-panic:" + run.PanicSite(tr), What: fmt.Sprintf("panic on thread T%d: %s at %s", pn.Thread, pn.Value, tr)})
		}
		for _, rep := range mon.poll() {
			st.RaceReports++
			k, w := ClassifyRace(rep)
			findings = append(findings, Finding{Key: k, What: w})
			raceSeen = true
		}
		if mine {
			if st.First == nil {
				st.First = map[string][]int{}
			}
			if _, ok := st.First[outcome]; !ok {
				st.First[outcome] = c.Schedule
			}
			st.Outcomes[outcome]++
			for _, f := range findings {
				report(c, f)
			}
		}
		if st.Deadlocks > 200 {
			st.Exhaustive = false // parked goroutines of deadlocked executions leak; the verdict is in, stop
			break
		}
		if opt.DefaultOnly {
			st.Mode = "default-schedule"
			break
		}
		// expand alternatives
		pre := 0
		stop := false
		var alts []frame
		if opt.DevBound > 0 {
			devs := 0
			for _, c := range fr.prefix {
				if c != 0 {
					devs++
				}
			}
			if devs < opt.DevBound {
				for i := len(fr.prefix); i < len(res.Points); i++ {
					p := res.Points[i]
					for alt := 1; alt < len(p.Enabled); alt++ {
						np := make([]int, i+1)
						for k := 0; k < i; k++ {
							np[k] = res.Points[k].Chosen
						}
						np[i] = alt
						alts = append(alts, frame{prefix: np, depth: fr.depth + 1})
					}
				}
			}
			stop = true
		}
		for i, p := range res.Points {
			if opt.DevBound > 0 {
				break
			}
			if i >= len(fr.prefix) && opt.HBCache && !raceSeen && !stop {
				if expanded[p.KeyBefore] {
					stop = true
					st.Pruned++
				} else {
					expanded[p.KeyBefore] = true
				}
			}
			if i >= len(fr.prefix) && !stop {
				cost := pre
				if p.RunningEnabled {
					cost++
				}
				if p.RunningEnabled && !p.RunningFocus && !(opt.HBCache && !raceSeen) {
					cost = opt.Bound + 1 // not a place where this scenario puts preemptions
				}
				if opt.HBCache && !raceSeen || cost <= opt.Bound {
					for alt := 1; alt < len(p.Enabled); alt++ {
						np := make([]int, i+1)
						for k := 0; k < i; k++ {
							np[k] = res.Points[k].Chosen
						}
						np[i] = alt
						alts = append(alts, frame{prefix: np, depth: fr.depth + 1})
					}
				}
			}
			if p.RunningEnabled && p.Chosen != 0 {
				pre++
			}
		}
		if shards > 1 && fr.depth == 1 {
			// second-level alternatives are dealt round-robin to the shards (every shard walks levels 0-1 in the same order)
			var own []frame
			for _, a := range alts {
				if topIndex%shards == opt.Shard {
					own = append(own, a)
				}
				topIndex++
			}
			alts = own
		}
		// push in reverse so that the earliest alternative is explored first
		for k := len(alts) - 1; k >= 0; k-- {
			stack = append(stack, alts[k])
		}
	}
	st.States = len(expanded)
	if opt.HBCache && raceSeen {
		st.Mode += " (caching disabled after a race report: soundness premise gone)"
	}
	return st
}

func deadlockShape(blocked []string) string {
	var ops []string
	for _, b := range blocked {
		if strings.HasPrefix(b, "locks:") {
			continue
		}
		// "T3:rlock#5(label)" -> "rlock"
		if k := strings.Index(b, ":"); k >= 0 {
			b = b[k+1:]
		}
		if k := strings.IndexAny(b, "#("); k >= 0 {
			b = b[:k]
		}
		ops = append(ops, b)
	}
	sort.Strings(ops)
	return strings.Join(ops, "+")
}

// Replay runs one recorded schedule with tracing.
func Replay(sc Scenario, schedule []int, raceLog string) (*zvsync.Result, string, []Finding) {
	var mon *raceMon
	if raceLog != "" {
		mon = &raceMon{prefix: raceLog, off: map[string]int64{}}
		mon.poll()
	}
	inst := sc.Make()
	zvsync.SetFocus(inst.Focus)
	res := zvsync.Run(schedule, true, inst.Bodies...)
	var findings []Finding
	outcome := ""
	switch {
	case res.Horizon:
		findings = append(findings, Finding{Key: "livelock:horizon", What: "horizon reached"})
	case res.Deadlock:
		findings = append(findings, Finding{Key: "deadlock:" + deadlockShape(res.Blocked), What: "no thread can run: " + strings.Join(res.Blocked, " | ")})
	default:
		outcome, findings = inst.Check(res)
	}
	for _, pn := range res.Panics {
		tr := run.TrimStack(pn.Stack)
		findings = append(findings, Finding{Key: "thread-panic:" + run.PanicSite(tr), What: fmt.Sprintf("panic on thread T%d: %s at %s", pn.Thread, pn.Value, tr)})
	}
	for _, rep := range mon.poll() {
		k, w := ClassifyRace(rep)
		findings = append(findings, Finding{Key: k, What: w})
	}
	return res, outcome, findings
}
