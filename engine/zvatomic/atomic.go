// Package atomic is the shim engine/instr substitutes for sync/atomic in the repository's packages (virtual
// package berty.tech/go-ipfs-log/zvatomic): the real atomics behind the same API, with a scheduling point in front of
// every operation. An atomic operation is indivisible; two of them in a row are not, and what a thread does
// between them is exactly what another thread's operations can interleave with.
package atomic

import (
	realatomic "sync/atomic"
	"unsafe"

	"berty.tech/go-ipfs-log/zvsync"
)

func point(write bool) { zvsync.Access("sync/atomic", write) }

type Bool struct{ v realatomic.Bool }

func (x *Bool) Load() bool                        { point(false); return x.v.Load() }
func (x *Bool) Store(val bool)                    { point(true); x.v.Store(val) }
func (x *Bool) Swap(new bool) bool                { point(true); return x.v.Swap(new) }
func (x *Bool) CompareAndSwap(old, new bool) bool { point(true); return x.v.CompareAndSwap(old, new) }

type Int32 struct{ v realatomic.Int32 }

func (x *Int32) Load() int32                        { point(false); return x.v.Load() }
func (x *Int32) Store(val int32)                    { point(true); x.v.Store(val) }
func (x *Int32) Swap(new int32) int32               { point(true); return x.v.Swap(new) }
func (x *Int32) CompareAndSwap(old, new int32) bool { point(true); return x.v.CompareAndSwap(old, new) }
func (x *Int32) Add(delta int32) int32              { point(true); return x.v.Add(delta) }

type Int64 struct{ v realatomic.Int64 }

func (x *Int64) Load() int64                        { point(false); return x.v.Load() }
func (x *Int64) Store(val int64)                    { point(true); x.v.Store(val) }
func (x *Int64) Swap(new int64) int64               { point(true); return x.v.Swap(new) }
func (x *Int64) CompareAndSwap(old, new int64) bool { point(true); return x.v.CompareAndSwap(old, new) }
func (x *Int64) Add(delta int64) int64              { point(true); return x.v.Add(delta) }

type Uint32 struct{ v realatomic.Uint32 }

func (x *Uint32) Load() uint32           { point(false); return x.v.Load() }
func (x *Uint32) Store(val uint32)       { point(true); x.v.Store(val) }
func (x *Uint32) Swap(new uint32) uint32 { point(true); return x.v.Swap(new) }
func (x *Uint32) CompareAndSwap(old, new uint32) bool {
	point(true)
	return x.v.CompareAndSwap(old, new)
}
func (x *Uint32) Add(delta uint32) uint32 { point(true); return x.v.Add(delta) }

type Uint64 struct{ v realatomic.Uint64 }

func (x *Uint64) Load() uint64           { point(false); return x.v.Load() }
func (x *Uint64) Store(val uint64)       { point(true); x.v.Store(val) }
func (x *Uint64) Swap(new uint64) uint64 { point(true); return x.v.Swap(new) }
func (x *Uint64) CompareAndSwap(old, new uint64) bool {
	point(true)
	return x.v.CompareAndSwap(old, new)
}
func (x *Uint64) Add(delta uint64) uint64 { point(true); return x.v.Add(delta) }

type Uintptr struct{ v realatomic.Uintptr }

func (x *Uintptr) Load() uintptr            { point(false); return x.v.Load() }
func (x *Uintptr) Store(val uintptr)        { point(true); x.v.Store(val) }
func (x *Uintptr) Swap(new uintptr) uintptr { point(true); return x.v.Swap(new) }
func (x *Uintptr) CompareAndSwap(old, new uintptr) bool {
	point(true)
	return x.v.CompareAndSwap(old, new)
}
func (x *Uintptr) Add(delta uintptr) uintptr { point(true); return x.v.Add(delta) }

type Pointer[T any] struct{ v realatomic.Pointer[T] }

func (x *Pointer[T]) Load() *T       { point(false); return x.v.Load() }
func (x *Pointer[T]) Store(val *T)   { point(true); x.v.Store(val) }
func (x *Pointer[T]) Swap(new *T) *T { point(true); return x.v.Swap(new) }
func (x *Pointer[T]) CompareAndSwap(old, new *T) bool {
	point(true)
	return x.v.CompareAndSwap(old, new)
}

type Value struct{ v realatomic.Value }

func (x *Value) Load() any                        { point(false); return x.v.Load() }
func (x *Value) Store(val any)                    { point(true); x.v.Store(val) }
func (x *Value) Swap(new any) any                 { point(true); return x.v.Swap(new) }
func (x *Value) CompareAndSwap(old, new any) bool { point(true); return x.v.CompareAndSwap(old, new) }

func AddInt32(addr *int32, delta int32) int32 { point(true); return realatomic.AddInt32(addr, delta) }
func AddInt64(addr *int64, delta int64) int64 { point(true); return realatomic.AddInt64(addr, delta) }
func AddUint32(addr *uint32, delta uint32) uint32 {
	point(true)
	return realatomic.AddUint32(addr, delta)
}
func AddUint64(addr *uint64, delta uint64) uint64 {
	point(true)
	return realatomic.AddUint64(addr, delta)
}
func AddUintptr(addr *uintptr, delta uintptr) uintptr {
	point(true)
	return realatomic.AddUintptr(addr, delta)
}

func LoadInt32(addr *int32) int32       { point(false); return realatomic.LoadInt32(addr) }
func LoadInt64(addr *int64) int64       { point(false); return realatomic.LoadInt64(addr) }
func LoadUint32(addr *uint32) uint32    { point(false); return realatomic.LoadUint32(addr) }
func LoadUint64(addr *uint64) uint64    { point(false); return realatomic.LoadUint64(addr) }
func LoadUintptr(addr *uintptr) uintptr { point(false); return realatomic.LoadUintptr(addr) }
func LoadPointer(addr *unsafe.Pointer) unsafe.Pointer {
	point(false)
	return realatomic.LoadPointer(addr)
}

func StoreInt32(addr *int32, val int32)       { point(true); realatomic.StoreInt32(addr, val) }
func StoreInt64(addr *int64, val int64)       { point(true); realatomic.StoreInt64(addr, val) }
func StoreUint32(addr *uint32, val uint32)    { point(true); realatomic.StoreUint32(addr, val) }
func StoreUint64(addr *uint64, val uint64)    { point(true); realatomic.StoreUint64(addr, val) }
func StoreUintptr(addr *uintptr, val uintptr) { point(true); realatomic.StoreUintptr(addr, val) }
func StorePointer(addr *unsafe.Pointer, val unsafe.Pointer) {
	point(true)
	realatomic.StorePointer(addr, val)
}

func SwapInt32(addr *int32, new int32) int32 { point(true); return realatomic.SwapInt32(addr, new) }
func SwapInt64(addr *int64, new int64) int64 { point(true); return realatomic.SwapInt64(addr, new) }
func SwapUint32(addr *uint32, new uint32) uint32 {
	point(true)
	return realatomic.SwapUint32(addr, new)
}
func SwapUint64(addr *uint64, new uint64) uint64 {
	point(true)
	return realatomic.SwapUint64(addr, new)
}
func SwapUintptr(addr *uintptr, new uintptr) uintptr {
	point(true)
	return realatomic.SwapUintptr(addr, new)
}
func SwapPointer(addr *unsafe.Pointer, new unsafe.Pointer) unsafe.Pointer {
	point(true)
	return realatomic.SwapPointer(addr, new)
}

func CompareAndSwapInt32(addr *int32, old, new int32) bool {
	point(true)
	return realatomic.CompareAndSwapInt32(addr, old, new)
}
func CompareAndSwapInt64(addr *int64, old, new int64) bool {
	point(true)
	return realatomic.CompareAndSwapInt64(addr, old, new)
}
func CompareAndSwapUint32(addr *uint32, old, new uint32) bool {
	point(true)
	return realatomic.CompareAndSwapUint32(addr, old, new)
}
func CompareAndSwapUint64(addr *uint64, old, new uint64) bool {
	point(true)
	return realatomic.CompareAndSwapUint64(addr, old, new)
}
func CompareAndSwapUintptr(addr *uintptr, old, new uintptr) bool {
	point(true)
	return realatomic.CompareAndSwapUintptr(addr, old, new)
}
func CompareAndSwapPointer(addr *unsafe.Pointer, old, new unsafe.Pointer) bool {
	point(true)
	return realatomic.CompareAndSwapPointer(addr, old, new)
}
