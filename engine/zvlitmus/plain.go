// Package zvlitmus is plain Go — select, channels, go statements, sync and sync/atomic written the ordinary way. It
// is not used as it stands: engine/instr rewrites it exactly as it rewrites the repository's files and adds the result
// as the virtual package berty.tech/go-ipfs-log/zvlitmus; the litmus programs (checks/schd/litmus.go) then explore
// it and compare the reachable outcomes with what the Go semantics allow. This checks the rewriter end to end.
package zvlitmus

import (
	"context"
	"fmt"
	"sync"
	"sync/atomic"
)

// RecvOrDone waits for a value or for the context's end.
func RecvOrDone(ctx context.Context, ch chan int) string {
	select {
	case <-ctx.Done():
		return "done"
	case v := <-ch:
		return fmt.Sprint("got ", v)
	}
}

// Send is a plain blocking send.
func Send(ch chan int, v int) { ch <- v }

// Drain adds up what arrives until stop is closed; a value that is ready is taken before stop is looked at
// (the rewrite's source-order rule; real Go may also leave a ready value behind).
func Drain(ch chan int, stop chan struct{}) int {
	sum := 0
	for {
		select {
		case v := <-ch:
			if v < 0 {
				break // leaves the select, not the loop
			}
			sum += v
		case <-stop:
			return sum
		}
	}
}

// Produce sends the values and then closes stop.
func Produce(ch chan int, stop chan struct{}, vs ...int) {
	for _, v := range vs {
		ch <- v
	}
	close(stop)
}

// Counter is incremented by a compare-and-swap loop (never loses an update) or by load-then-store (may).
type Counter struct{ n int64 }

func (c *Counter) IncCAS() {
	for {
		old := atomic.LoadInt64(&c.n)
		if atomic.CompareAndSwapInt64(&c.n, old, old+1) {
			return
		}
	}
}

func (c *Counter) IncLoadStore() { atomic.StoreInt64(&c.n, atomic.LoadInt64(&c.n)+1) }

func (c *Counter) Value() int64 { return atomic.LoadInt64(&c.n) }

// FanOut starts n goroutines that each add their index under a mutex and waits for them.
func FanOut(n int) int {
	var mu sync.Mutex
	var wg sync.WaitGroup
	total := 0
	for i := 1; i <= n; i++ {
		wg.Add(1)
		go func(k int) {
			defer wg.Done()
			mu.Lock()
			total += k
			mu.Unlock()
		}(i)
	}
	wg.Wait()
	return total
}
