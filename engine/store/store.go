// Package store is an in-memory double of the three IPFS calls go-ipfs-log uses
// (Dag().Add, Dag().Get, Pin().Add). It records every call, can inject faults per
// CID, can fail the k-th write (crash injection) and exposes every prefix of the
// write log as a snapshot. It has no lock of its own: under the controlled
// scheduler only one thread runs at a time, and in the sequential engines every
// world owns its store.
package store

import (
	"context"
	"errors"
	"fmt"
	"time"

	"github.com/ipfs/boxo/path"
	blocks "github.com/ipfs/go-block-format"
	"github.com/ipfs/go-cid"
	cbornode "github.com/ipfs/go-ipld-cbor"
	format "github.com/ipfs/go-ipld-format"
	dag "github.com/ipfs/go-merkledag"
	coreiface "github.com/ipfs/kubo/core/coreiface"
	"github.com/ipfs/kubo/core/coreiface/options"
)

// Fault kinds for a CID.
type Fault int

const (
	OK       Fault = iota
	Absent         // Get returns not-found
	Error          // Get returns an I/O error
	Garbage        // Get returns a decode error (block bytes are not valid for the codec)
	NotEntry       // Get returns a valid CBOR node that is not an entry (a map with alien keys)
	Slow           // Get blocks until its context is cancelled, then returns the context error
	Late           // Get delivers the block after LateFor (virtual time), or the context error if the context ends first
)

// LateFor is how long a Late block takes to arrive.
const LateFor = 5 * time.Second

func (f Fault) String() string {
	return [...]string{"ok", "absent", "error", "garbage", "notentry", "slow", "late"}[f]
}

// Hooks connect the store to the controlled scheduler (nil in the sequential engines).
type Hooks struct {
	Access     func(name string, write bool) // scheduling point on a named datum
	Acquire    func(p *uint64)               // race-detector edges for Add(c) -> Get(c)
	Release    func(p *uint64)
	WaitCancel func(ctx context.Context) // block (virtually) until ctx is done
	// Delay blocks (virtually) for d or until ctx is done, whichever is first, and returns ctx.Err()
	Delay func(ctx context.Context, d time.Duration) error
}

type slot struct {
	key  string
	c    cid.Cid
	data []byte
	tok  uint64
}

// Call is one recorded store request.
type Call struct {
	Op  string // "add" | "get" | "pin"
	Cid cid.Cid
	OK  bool
}

type Store struct {
	coreiface.CoreAPI
	slots   []slot
	Calls   []Call
	Adds    []cid.Cid // order of first-time block writes
	Removed []cid.Cid // blocks deleted through Dag().Remove
	Faults  map[string]Fault
	Subst   map[string][]byte // replacement bytes served for a CID (malformed-block placement)
	// FailAddAt, when >0, makes the k-th (1-based) Add call fail with ErrCrash and every later one too.
	FailAddAt int
	// FailAddOnly, when >0, makes exactly the k-th (1-based) Add call fail with ErrIO (a transient write error).
	FailAddOnly int
	// FailAddCount: how many consecutive Add calls fail from FailAddOnly on (0 means 1)
	FailAddCount int
	// FailPinOnce makes the next Pin().Add fail with ErrIO.
	FailPinOnce bool
	addCalls    int
	Hooks       *Hooks
	// OnAdd, when set, is called after every successful first-time write (store closure checks).
	OnAdd func(s *Store, c cid.Cid)
	// Visible limits Get to the first Visible writes (-1: everything); used for crash-point snapshots.
	Visible int
}

var ErrCrash = errors.New("store: injected crash")
var ErrIO = errors.New("store: injected I/O error")

func New() *Store {
	return &Store{Faults: map[string]Fault{}, Subst: map[string][]byte{}, Visible: -1}
}

// View returns a read-only store that sees only the first n block writes of s.
func (s *Store) View(n int) *Store {
	v := New()
	if n > len(s.Adds) {
		n = len(s.Adds)
	}
	v.Hooks = s.Hooks
	for i := 0; i < n; i++ {
		b, _ := s.raw(s.Adds[i].KeyString())
		v.put(s.Adds[i], b)
		v.Adds = append(v.Adds, s.Adds[i])
	}
	return v
}

type dagSvc struct{ s *Store }
type pinSvc struct {
	coreiface.PinAPI
	s *Store
}

//go:norace
func (p pinSvc) Add(_ context.Context, pth path.Path, _ ...options.PinAddOption) error {
	if p.s.FailPinOnce {
		p.s.FailPinOnce = false
		p.s.Calls = append(p.s.Calls, Call{Op: "pin", OK: false})
		return ErrIO
	}
	p.s.Calls = append(p.s.Calls, Call{Op: "pin", OK: true})
	return nil
}
func (s *Store) Dag() coreiface.APIDagService { return dagSvc{s} }
func (s *Store) Pin() coreiface.PinAPI        { return pinSvc{s: s} }
func (d dagSvc) Pinning() format.NodeAdder    { return d }

//go:norace
func (s *Store) put(c cid.Cid, b []byte) bool {
	k := c.KeyString()
	for i := range s.slots {
		if s.slots[i].key == k {
			if s.Hooks != nil {
				s.Hooks.Release(&s.slots[i].tok)
			}
			return false
		}
	}
	s.slots = append(s.slots, slot{key: k, c: c, data: b})
	if s.Hooks != nil {
		s.Hooks.Release(&s.slots[len(s.slots)-1].tok)
	}
	return true
}

//go:norace
func (s *Store) raw(k string) ([]byte, bool) {
	for i := range s.slots {
		if s.slots[i].key == k {
			if s.Hooks != nil {
				s.Hooks.Acquire(&s.slots[i].tok)
			}
			return s.slots[i].data, true
		}
	}
	return nil, false
}

// Has reports whether the block is stored (no call is recorded).
func (s *Store) Has(c cid.Cid) bool { _, ok := s.raw(c.KeyString()); return ok }

// Raw returns the stored bytes of a block (no call is recorded).
func (s *Store) Raw(c cid.Cid) ([]byte, bool) { return s.raw(c.KeyString()) }

// PutRaw stores arbitrary bytes under a CID (used to plant malformed blocks).
func (s *Store) PutRaw(c cid.Cid, b []byte) {
	if s.put(c, b) {
		s.Adds = append(s.Adds, c)
	}
}

// Len is the number of stored blocks.
func (s *Store) Len() int { return len(s.slots) }

//go:norace
func (s *Store) note(c Call) { s.Calls = append(s.Calls, c) }

//go:norace
func (d dagSvc) Add(ctx context.Context, n format.Node) error {
	s := d.s
	if s.Hooks != nil {
		s.Hooks.Access("blk:"+n.Cid().KeyString(), true)
	}
	s.addCalls++
	if s.FailAddOnly > 0 && s.addCalls >= s.FailAddOnly && s.addCalls < s.FailAddOnly+maxInt(1, s.FailAddCount) {
		s.note(Call{Op: "add", Cid: n.Cid(), OK: false})
		return ErrIO
	}
	if s.FailAddAt > 0 && s.addCalls >= s.FailAddAt {
		s.note(Call{Op: "add", Cid: n.Cid(), OK: false})
		return ErrCrash
	}
	s.note(Call{Op: "add", Cid: n.Cid(), OK: true})
	if s.put(n.Cid(), n.RawData()) {
		s.Adds = append(s.Adds, n.Cid())
		if s.OnAdd != nil {
			s.OnAdd(s, n.Cid())
		}
	}
	return nil
}

func (d dagSvc) AddMany(ctx context.Context, ns []format.Node) error {
	for _, n := range ns {
		if err := d.Add(ctx, n); err != nil {
			return err
		}
	}
	return nil
}

// Decode turns raw block bytes into a node the way an IPFS node would.
func Decode(c cid.Cid, b []byte) (format.Node, error) {
	blk, err := blocks.NewBlockWithCid(b, c)
	if err != nil {
		return nil, err
	}
	switch c.Prefix().Codec {
	case cid.DagCBOR:
		return cbornode.DecodeBlock(blk)
	case cid.DagProtobuf:
		return dag.DecodeProtobufBlock(blk)
	}
	return nil, fmt.Errorf("store: unsupported codec %d", c.Prefix().Codec)
}

//go:norace
func (d dagSvc) Get(ctx context.Context, c cid.Cid) (format.Node, error) {
	s := d.s
	k := c.KeyString()
	if s.Hooks != nil {
		s.Hooks.Access("blk:"+k, false)
	}
	f := s.Faults[k]
	switch f {
	case Absent:
		s.note(Call{Op: "get", Cid: c})
		return nil, format.ErrNotFound{Cid: c}
	case Error:
		s.note(Call{Op: "get", Cid: c})
		return nil, ErrIO
	case Garbage:
		s.note(Call{Op: "get", Cid: c})
		_, err := Decode(c, []byte{0xff, 0x00, 0x13})
		if err == nil {
			err = errors.New("store: garbage")
		}
		return nil, err
	case NotEntry:
		s.note(Call{Op: "get", Cid: c})
		nd, err := cbornode.WrapObject(map[string]interface{}{"alien": 1}, cid.NewPrefixV1(cid.DagCBOR, 0x12).MhType, -1)
		if err != nil {
			return nil, err
		}
		return nd, nil
	case Slow:
		s.note(Call{Op: "get", Cid: c})
		if s.Hooks != nil && s.Hooks.WaitCancel != nil {
			s.Hooks.WaitCancel(ctx)
		} else {
			<-ctx.Done()
		}
		return nil, ctx.Err()
	}
	if f == Late && s.Hooks != nil && s.Hooks.Delay != nil {
		if err := s.Hooks.Delay(ctx, LateFor); err != nil {
			s.note(Call{Op: "get", Cid: c})
			return nil, err
		}
	}
	if err := ctx.Err(); err != nil {
		s.note(Call{Op: "get", Cid: c})
		return nil, err
	}
	b, ok := s.raw(k)
	if sub, has := s.Subst[k]; has {
		b, ok = sub, true
	}
	s.note(Call{Op: "get", Cid: c, OK: ok})
	if !ok {
		return nil, format.ErrNotFound{Cid: c}
	}
	return Decode(c, b)
}

func (d dagSvc) GetMany(ctx context.Context, cs []cid.Cid) <-chan *format.NodeOption {
	out := make(chan *format.NodeOption, len(cs))
	for _, c := range cs {
		n, err := d.Get(ctx, c)
		out <- &format.NodeOption{Node: n, Err: err}
	}
	close(out)
	return out
}

// Remove really deletes the block (a store is not grow-only just because the library never used to delete).
//
//go:norace
func (d dagSvc) Remove(ctx context.Context, c cid.Cid) error {
	s := d.s
	if s.Hooks != nil {
		s.Hooks.Access("blk:"+c.KeyString(), true)
	}
	k := c.KeyString()
	for i := range s.slots {
		if s.slots[i].key == k {
			s.slots = append(s.slots[:i:i], s.slots[i+1:]...)
			s.note(Call{Op: "remove", Cid: c, OK: true})
			s.Removed = append(s.Removed, c)
			return nil
		}
	}
	s.note(Call{Op: "remove", Cid: c, OK: false})
	return nil
}

func (d dagSvc) RemoveMany(ctx context.Context, cs []cid.Cid) error {
	for _, c := range cs {
		d.Remove(ctx, c)
	}
	return nil
}

// Present returns the CIDs of the blocks currently stored.
func (s *Store) Present() []cid.Cid {
	var r []cid.Cid
	for i := range s.slots {
		r = append(r, s.slots[i].c)
	}
	return r
}

// Gets returns the CIDs requested with Get, in order.
func (s *Store) Gets() []cid.Cid {
	var r []cid.Cid
	for _, c := range s.Calls {
		if c.Op == "get" {
			r = append(r, c.Cid)
		}
	}
	return r
}

// ResetCalls forgets the recorded calls (not the blocks).
func (s *Store) ResetCalls() { s.Calls = nil }

func maxInt(a, b int) int {
	if a > b {
		return a
	}
	return b
}
